package main

import (
	"encoding/json"
	"flag"
	"go/token"
	"os"
	"strings"

	"github.com/go-critic/go-critic/linter"
	"verifharness/hx"
)

func init() {
	commands["gate"] = gateCmd
	commands["goversion"] = goversionCmd
}

// gateCmd analyses the corpus once per target Go version (all checkers constructed on a context carrying that version)
// and records every diagnostic with the source line it flags.
func gateCmd(args []string) {
	fs := flag.NewFlagSet("gate", flag.ExitOnError)
	corpus := fs.String("corpus", "examples", "corpora (see lifecycle)")
	versions := fs.String("versions", "", "comma list of versions; the empty item means 'not configured'")
	out := fs.String("out", "", "output JSON")
	late := fs.Bool("late", false, "construct the checkers first and set the version on the context afterwards")
	fs.Parse(args)
	hx.Init()
	fset := token.NewFileSet()
	var units []*hx.Unit
	for _, c := range strings.Split(*corpus, ",") {
		us, _ := loadCorpus(fset, c, nil)
		units = append(units, us...)
	}
	srcLines := map[string][]string{}
	lineOf := func(file string, line int) string {
		ls, ok := srcLines[file]
		if !ok {
			b, _ := os.ReadFile(file)
			ls = strings.Split(string(b), "\n")
			srcLines[file] = ls
		}
		if line-1 < len(ls) && line >= 1 {
			return ls[line-1]
		}
		return ""
	}
	type wj struct {
		Checker string `json:"checker"`
		Text    string `json:"text"`
		Src     string `json:"src"`
		Pos     string `json:"pos"`
		Fix     string `json:"fix,omitempty"`
	}
	res := map[string][]wj{}
	for _, v := range strings.Split(*versions, ",") {
		ctx := linter.NewContext(fset, hx.Sizes)
		if v != "" && !*late {
			ctx.SetGoVersion(v)
		}
		var cs []*linter.Checker
		for _, in := range hx.Infos() {
			c, err := linter.NewChecker(ctx, in)
			hx.Must(err)
			cs = append(cs, c)
		}
		if v != "" && *late {
			// Context.SetGoVersion "adjusts the target Go language version": also legal after the checkers exist
			ctx.SetGoVersion(v)
		}
		var ws []wj
		var lastPkg interface{}
		for _, u := range units {
			if lastPkg != u.Pkg {
				ctx.SetPackageInfo(u.Pkg.TypesInfo, u.Pkg.Types)
				lastPkg = u.Pkg
			}
			ctx.SetFileInfo(u.Base, u.File)
			for _, c := range cs {
				func() {
					defer func() { recover() }()
					for _, w := range c.Check(u.File) {
						p := fset.PositionFor(w.Pos, false)
						j := wj{Checker: c.Info.Name, Text: w.Text, Src: lineOf(p.Filename, p.Line), Pos: p.String()}
						if w.HasQuickFix() {
							j.Fix = string(w.Suggestion.Replacement)
						}
						ws = append(ws, j)
					}
				}()
			}
		}
		key := v
		if key == "" {
			key = "unset"
		}
		res[key] = ws
	}
	b, _ := json.Marshal(res)
	hx.Must(os.WriteFile(*out, b, 0o644))
}

// goversionCmd runs version strings through the real ParseGoVersion and GreaterOrEqual.
func goversionCmd(args []string) {
	fs := flag.NewFlagSet("goversion", flag.ExitOnError)
	in := fs.String("in", "", "JSON list of strings")
	out := fs.String("out", "", "output JSON")
	fs.Parse(args)
	data, err := os.ReadFile(*in)
	hx.Must(err)
	var strs []string
	hx.Must(json.Unmarshal(data, &strs))
	others := []linter.GoVersion{{Major: 1, Minor: 9}, {Major: 1, Minor: 13}, {Major: 1, Minor: 18}, {Major: 2, Minor: 0}, {Major: 1, Minor: 21}}
	var res []map[string]interface{}
	for _, s := range strs {
		v, err := linter.ParseGoVersion(s)
		o := map[string]interface{}{"s": s}
		if err != nil {
			o["err"] = err.Error()
		} else {
			o["major"], o["minor"] = v.Major, v.Minor
			var ge []bool
			for _, w := range others {
				ge = append(ge, v.GreaterOrEqual(w))
			}
			o["ge"] = ge
		}
		res = append(res, o)
	}
	b, _ := json.Marshal(res)
	hx.Must(os.WriteFile(*out, b, 0o644))
}
