package localtypes

func smallRows() int {
	type row struct{ id int }
	xs := make([]row, 2)
	n := 0
	for _, r := range xs {
		n += r.id
	}
	var arr [4]row
	for _, r := range arr {
		n += r.id
	}
	return n
}

func bigPairs() int {
	type pair struct{ a, b [200]int8 }
	ps := []pair{{}}
	n := 0
	for _, p := range ps {
		n += int(p.a[0] + p.b[0])
	}
	return n
}

func heavy(p struct{ pad [128]byte }) int { return int(p.pad[0]) }
