// Command vh is the Go side of the go-critic conformance checks: every sub-command
// replays specification-generated cases on the real code and/or records executions
// of the real code for validation against the TLA+ specifications.
package main

import (
	"fmt"
	"os"
)

var commands = map[string]func(args []string){}

func main() {
	if len(os.Args) < 2 {
		fmt.Fprintln(os.Stderr, "usage: vh <command> [flags]")
		os.Exit(3)
	}
	f, ok := commands[os.Args[1]]
	if !ok {
		fmt.Fprintln(os.Stderr, "vh: unknown command", os.Args[1])
		os.Exit(3)
	}
	f(os.Args[2:])
}
