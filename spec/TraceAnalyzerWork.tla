-------------------------- MODULE TraceAnalyzerWork --------------------------
(* The work loop of recorded analyzer passes (x/tools driver, package variants loaded with      *)
(* Tests: true) validated against AnalyzerWork.tla.                                               *)
(*   WBegin   pass, files     PassPrepared hook: pass.Files (physical names), in order            *)
(*   WSetFile pass, file      linter hook SetFile on the context created for the pass             *)
(*   WCheck   pass, checker, file, ws   linter hook CheckEnd: the warnings returned               *)
(*   WReturn  pass            PassReturnOK hook                                                   *)
(*   WDeliver pass, ds        after the run: act.Diagnostics of the pass' action, in order        *)
(* The constants of the design model come from the trace (Passes, FilesOf) and from REFS:         *)
(* Verdict[p][f][c] = what a newly constructed checker c says about file f of pass p's package    *)
(* variant (computed by the harness after the run; only non-empty verdicts are listed).           *)
(* Faithful / NothingForeign / Complete are the design model's invariants, unchanged.             *)
EXTENDS Naturals, Sequences, FiniteSets, TLC, Json, IOUtils
TraceFile == IF "TRACE" \in DOMAIN IOEnv THEN IOEnv.TRACE ELSE "work.ndjson"
RefsFile == IF "REFS" \in DOMAIN IOEnv THEN IOEnv.REFS ELSE "refs.ndjson"
Trace == ndJsonDeserialize(TraceFile)
Refs == ndJsonDeserialize(RefsFile)     \* line 1: [checkers |-> <<...>>]; then [pass, file, checker, ws]
TCheckers == Refs[1].checkers
Begins == { i \in 1..Len(Trace) : Trace[i].ev = "WBegin" }
TPasses == { Trace[i].pass : i \in Begins }
TFilesOf == [p \in TPasses |-> Trace[CHOOSE i \in Begins : Trace[i].pass = p].files]
TFiles == UNION { { TFilesOf[p][i] : i \in 1..Len(TFilesOf[p]) } : p \in TPasses }
CheckerSet == { TCheckers[i] : i \in 1..Len(TCheckers) }
RefIdx(p, f, c) == { i \in 2..Len(Refs) : Refs[i].pass = p /\ Refs[i].file = f /\ Refs[i].checker = c }
TVerdict == [p \in TPasses |-> [f \in TFiles |-> [c \in CheckerSet |->
               IF RefIdx(p, f, c) = {} THEN <<>> ELSE Refs[CHOOSE i \in RefIdx(p, f, c) : TRUE].ws]]]

VARIABLES wpc, fi, ci, out, delivered, memo, l
W == INSTANCE AnalyzerWork WITH Passes <- TPasses, FilesOf <- TFilesOf, Checkers <- TCheckers,
                                Verdict <- TVerdict, Memo <- FALSE
IsEv(e) == l <= Len(Trace) /\ Trace[l].ev = e /\ l' = l + 1
T == Trace[l]
TInit == W!WInit /\ l = 1
TBegin == IsEv("WBegin") /\ W!Begin(T.pass)
TSetFile == IsEv("WSetFile") /\ fi[T.pass] \in 1..Len(TFilesOf[T.pass]) /\ W!CurFile(T.pass) = T.file /\ W!SetFile(T.pass)
TCheck == /\ IsEv("WCheck") /\ fi[T.pass] \in 1..Len(TFilesOf[T.pass]) /\ W!CurFile(T.pass) = T.file
          /\ ci[T.pass] \in 1..Len(TCheckers) /\ TCheckers[ci[T.pass]] = T.checker
          /\ W!Check(T.pass, T.ws)
TReturn == IsEv("WReturn") /\ W!Return(T.pass)
TDeliver == IsEv("WDeliver") /\ W!Deliver(T.pass) /\ delivered'[T.pass] = T.ds
TNext == TBegin \/ TSetFile \/ TCheck \/ TReturn \/ TDeliver
TSpec == TInit /\ [][TNext]_<<W!wvars, l>>
Faithful == W!Faithful
NothingForeign == W!NothingForeign
Complete == W!Complete
AllDelivered == l = Len(Trace) + 1 => \A p \in TPasses : wpc[p] = "delivered"
Accepted == TLCGet("stats").diameter - 1 = Len(Trace)
==============================================================================
