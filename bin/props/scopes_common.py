"""Scopes.tla cases rendered and analysed by the harness (`vh scopes`): shared by C20 (namesakes) and C01 (crashes)."""
import json
import os

import vlib

SCFG = """SPECIFICATION Spec
INVARIANTS %s
"""


def design(ctx):
    out = {}
    r = ctx.tlc("Scopes", cfg_text=SCFG % "OnlyRealByObject", workers=2, timeout=300, dump="scopes", expect="ok")
    out["cases"] = r.distinct
    for style in ("OnlyRealBySpelling", "OnlyRealByPkgObject", "OnlyRealByPkgName"):
        r2 = ctx.tlc("Scopes", cfg_text=SCFG % style, workers=2, timeout=300, expect="violation")
        out["whatif_" + style] = r2.violated
    return out


def run(ctx):
    """Returns (cases by id, observations). Model/go-types disagreements are infrastructure failures (B-sem)."""
    if getattr(ctx, "_scopes", None):
        return ctx._scopes
    states = vlib.parse_dump(ctx.spec_path("scopes.dump"))
    cases = [{"ID": str(i), "Kind": s["kind"], "Variadic": s["variadic"], "PkgD": s["pkgD"], "FileD": s["fileD"], "ParamD": s["paramD"],
              "LocalD": s["localD"], "Shape": s["shape"], "wf": s["wellFormed"], "res": s["resolved"], "real": s["realAPI"]} for i, s in enumerate(states)]
    inp, outp = ctx.path("sc_in.json"), ctx.path("sc_out.json")
    json.dump(cases, open(inp, "w"))
    work = os.path.join(ctx.scratch, "scopes_ws")
    ctx.run_vh(["scopes", "-in", inp, "-out", outp, "-work", work], timeout=3000)
    obs = json.load(open(outp))
    byid = {c["ID"]: c for c in cases}
    for o in obs:
        c = byid[o["case"]]
        if o["typeOK"] != c["wf"]:
            raise vlib.Infra("Scopes.tla and go/types disagree on well-formedness of subject %s case %s: model %s, go/types: %s"
                             % (o["subject"], c, c["wf"], o.get("typeErr", "ok")))
        if o["typeOK"] and (o["resolved"] != c["res"] or o["real"] != c["real"]):
            raise vlib.Infra("Scopes.tla and go/types disagree on resolution of subject %s case %s: model %s/%s, go/types %s/%s"
                             % (o["subject"], c, c["res"], c["real"], o["resolved"], o["real"]))
    ctx._scopes = (byid, obs, work)
    return ctx._scopes
