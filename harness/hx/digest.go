package hx

import (
	"crypto/sha1"
	"encoding/hex"
	"fmt"
	"go/token"
	"strings"

	"github.com/go-critic/go-critic/linter"
)

// WarnString is the canonical projection of a warning: physical file, line, column, text, fix.
func WarnString(fset *token.FileSet, w linter.Warning) string {
	p := fset.PositionFor(w.Pos, false)
	s := fmt.Sprintf("%s:%d:%d|%s", p.Filename, p.Line, p.Column, w.Text)
	if w.HasQuickFix() {
		a := fset.PositionFor(w.Suggestion.From, false)
		b := fset.PositionFor(w.Suggestion.To, false)
		s += fmt.Sprintf("|fix %d-%d %q", a.Offset, b.Offset, w.Suggestion.Replacement)
	}
	return s
}

func WarnStrings(fset *token.FileSet, ws []linter.Warning) []string {
	out := make([]string, len(ws))
	for i, w := range ws {
		out[i] = WarnString(fset, w)
	}
	return out
}

// Digest of an ordered list of warnings; "" for the empty list.
func Digest(lines []string) string {
	if len(lines) == 0 {
		return ""
	}
	h := sha1.Sum([]byte(strings.Join(lines, "\n")))
	return hex.EncodeToString(h[:8])
}
