SPECIFICATION Spec
CONSTANTS
  Passes = {1, 2, 3}
  InitFails = FALSE
  LatchSkips = TRUE
  UnlockAlways = TRUE
INVARIANTS NoPanic CfgOrErr NoPartial NoParamRace WrittenOnce MutexOK ErrReportedOnce
