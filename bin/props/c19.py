"""C19 - configuration and load errors fail cleanly on every front-end.

Spec: ConfigErrors.tla (the configuration pipeline with one error exit per step, for the two CLI mains and the two analysis
mains, 1..3 packages; Conforms = NoPanic /\\ CleanFailure; the three behaviours observed on the pinned tree are what-if constants
and are refuted) and Analyzer.tla (latch / cache under concurrent passes). TLC exports every (front-end, class, package count)
case with its predicted outcome; each is executed on the four real binaries. Recorded analyzer runs with an invalid
configuration are validated by TraceAnalyzer.tla. Load errors: packages with syntax / type / import / package-clause errors.
"""
import json
import os
import re
import subprocess

import vlib
from props import ws as wsmod
from props import analyzer_common as ac

CCFG = """SPECIFICATION Spec
CONSTANTS
  MaxPkgs = 3
  CLIValidatesVersion = %s
  LatchReturnsError = %s
  AnalyzerRejectsEmpty = %s
INVARIANTS Conforms
"""
BIN = {"cli": "cmd/go-critic", "twin": "cmd/gocritic", "analysis": "cmd/go-critic-analysis", "twin-analysis": "cmd/gocritic-analysis"}
KEYWORD = {"badGoVersion": "version", "unknownFailOn": "failOn", "unknownFailOnLegacy": "failOn", "noMatchPattern": "no file matching", "emptySelection": "empty",
           "badParamValue": "invalid value", "unknownFlag": "flag provided but not defined"}
DIAG = re.compile(r"^\S+\.go:\d+:\d+: \w+: ")
CRASH = re.compile(r"panic:|goroutine \d+ \[|SIGSEGV|fatal error:")


def args_for(fe, cls, rules):
    cli = fe in ("cli", "twin")
    a = {
        "valid": ["-enable=dupCase,assignOp,elseif,sloppyLen,captLocal"],
        "badGoVersion": ["-go=abc"],
        # ruleguard together with checkers that sort before and after it: one failing constructor must stop the run
        "unknownFailOn": ["-enable=dupCase,assignOp,elseif,ruleguard,sloppyLen", "-@ruleguard.rules=" + rules, "-@ruleguard.failOn=bogus"],
        # an invalid value next to the deprecated boolean spelling of the same setting: neither may mask the other
        "unknownFailOnLegacy": ["-enable=dupCase,assignOp,elseif,ruleguard,sloppyLen", "-@ruleguard.rules=" + rules, "-@ruleguard.failOn=bogus", "-@ruleguard.failOnError=true"],
        "noMatchPattern": ["-enable=dupCase,assignOp,elseif,ruleguard,sloppyLen", "-@ruleguard.rules=" + rules + ",/nonexistent/verif-*.go"],
        "emptySelection": ["-enable=noSuchChecker"],
        "badParamValue": ["-@hugeParam.sizeThreshold=abc"],
        "unknownFlag": ["-noSuchFlagAtAll"],
    }[cls]
    if not cli:
        a = a + ["-disable="] if cls in ("valid", "unknownFailOn", "unknownFailOnLegacy", "noMatchPattern", "emptySelection") else a
        return a
    return ["check"] + a


def run(ctx):
    thorough = ctx.tier == "thorough"
    design = {}
    dump = "cfgerr"
    r = ctx.tlc("ConfigErrors", cfg_text=CCFG % ("TRUE", "TRUE", "TRUE"), workers=2, timeout=300, dump=dump, expect="ok")
    design["intended"] = r.distinct
    for name, c in (("cliPanicsOnVersion", ("FALSE", "TRUE", "TRUE")), ("latchReturnsNeither", ("TRUE", "FALSE", "TRUE")),
                    ("analyzerAcceptsEmpty", ("TRUE", "TRUE", "FALSE"))):
        r = ctx.tlc("ConfigErrors", cfg_text=CCFG % c, workers=2, timeout=300, expect="violation")
        design["whatif_" + name] = r.violated
    design["analyzer"] = ac.design(ctx)
    states = [s for s in vlib.parse_dump(ctx.spec_path(dump + ".dump")) if s["pc"] == "done"]
    if len(states) != 96:
        raise vlib.Infra("expected 96 terminal cases from ConfigErrors, got %d" % len(states))

    w = wsmod.make(ctx, "ws_c19", 3, pick=["dupCase", "assignOp", "elseif"], dsl=True)
    rules = os.path.join(vlib.REPO, "checkers", "testdata", "_integration", "ruleguard", "rules.go")
    bins = {fe: ctx.build_repo_bin(p) for fe, p in BIN.items()}
    executed = 0
    samples = []
    for s in sorted(states, key=lambda s: (s["fe"], s["class"], s["npkgs"])):
        fe, cls, n = s["fe"], s["class"], s["npkgs"]
        if not thorough and n == 3 and cls not in ("badGoVersion", "emptySelection", "valid"):
            continue
        args = args_for(fe, cls, rules) + w["pkgs"][:n]
        r = subprocess.run([bins[fe]] + args, cwd=w["dir"], capture_output=True, text=True, env=vlib.goenv(), timeout=600)
        executed += 1
        err = r.stderr + r.stdout
        diags = [l for l in err.splitlines() if DIAG.match(l)]
        what = "%s %s (%d package%s): rc=%d" % (os.path.basename(BIN[fe]), " ".join(args_for(fe, cls, "rules.go")), n, "s" if n > 1 else "", r.returncode)
        rep = {"frontend": fe, "class": cls, "npkgs": n, "args": args, "rc": r.returncode, "stderr": err[-1500:], "predicted": s["outcome"]}
        if len(samples) < 4:
            samples.append({"case": [fe, cls, n], "rc": r.returncode, "stderr_head": err[:120]})
        if CRASH.search(err):
            ctx.fail("Crash %s %s%s" % (fe_kind(fe), cls, "" if fe_kind(fe) == "cli" else (" pkgs>=2" if n >= 2 else " pkgs=1")),
                     what + " crashed: " + first_crash_line(err), rep)
            continue
        if s["outcome"] == "ok":
            if not diags:
                raise vlib.Infra("control case produced no diagnostics: " + what + " " + err[-500:])
            continue
        # predicted: error exit, nothing analysed, a message naming the problem
        if r.returncode == 0:
            ctx.fail("SilentSuccess %s %s" % (fe_kind(fe), cls), what + " exits 0 for an invalid configuration", rep)
            continue
        if diags:
            ctx.fail("PartialAnalysis %s %s" % (fe_kind(fe), cls), what + " still printed diagnostics: " + diags[0], rep)
        if KEYWORD[cls].lower() not in err.lower():
            ctx.fail("UnclearMessage %s %s" % (fe_kind(fe), cls), what + " does not name the problem (%r expected in %r)" % (KEYWORD[cls], err[-300:]), rep)

    # recorded analyzer runs with an invalid configuration: sequential and parallel passes
    traces = events = 0
    for seq in (True, False):
        tf = ctx.spec_path("an_bad_%s.ndjson" % ("seq" if seq else "par"))
        rr, res = ac.analyze(ctx, w["dir"], flags="go=abc", sequential=seq, trace=tf)
        if res is None:
            ctx.fail("Crash analyzer-inprocess badGoVersion", "analyzer run died: " + first_crash_line(rr.stderr), {"stderr": rr.stderr[-1500:]})
            continue
        run0 = res["runs"][0]
        if run0.get("panic"):
            ctx.fail("Crash analyzer badGoVersion pkgs>=2", "analyzer passes panicked after a reported init error: %s" % run0["panic"], {"run": run0})
        elif run0.get("diags"):
            ctx.fail("PartialAnalysis analyzer badGoVersion", "diagnostics reported despite the init error", {"run": run0})
        elif not run0.get("errors") and not run0.get("analyze_error"):
            ctx.fail("SilentSuccess analyzer badGoVersion", "no pass reported the init error", {"run": run0})
        if os.path.exists(tf) and os.path.getsize(tf) > 0:
            ok, bad, _ = ctx.validate_trace("TraceAnalyzer", tf, chunks=1, env={"INITFAILS": "1"})
            traces += 1
            n = sum(1 for _ in open(tf))
            events += n
            if not ok and not run0.get("panic"):
                line = open(tf).read().splitlines()[bad - 1] if bad and bad <= n else "<end of trace>"
                ctx.fail("AnalyzerTraceRejected badGoVersion", "TraceAnalyzer rejects the recorded run at line %s: %s" % (bad, line), {"line": bad})

    load = load_errors(ctx, bins, thorough)
    st, tr = vlib.tlc_states_total(ctx)
    cov = {
        "states": st, "transitions": tr, "traces_validated_against_impl": executed + traces,
        "cases_from_tlc": len(states), "cases_executed_on_binaries": executed, "analyzer_traces": traces, "analyzer_trace_events": events,
        "load_error_runs": load, "design": design, "exhaustive": thorough, "samples": samples,
    }
    return ctx.finish("model_checking", cov, ["'names the problem' = the class keyword appears in the output", "analysis mains run under the stock singlechecker driver"])


def fe_kind(fe):
    return "cli" if fe in ("cli", "twin") else "analysis"


def first_crash_line(err):
    for l in err.splitlines():
        if CRASH.search(l):
            return l[:300]
    return err[-300:]


# dereferences, calls, ranges, conversions, comparisons, appends ... whose operands have no recorded type
ILL_TYPED = """package a

import "example.com/nowhere/missing"

type S struct{ n int }

func ill1() int { return (*q).n + (*missing.P).n + (*(*r)).n }

func ill2() {
	for _, v := range undefinedSlice {
		_ = v
	}
	for i := range missing.Xs {
		_ = i
	}
	xs = append(xs, undefinedVal)
	ys := append(missing.Ys, 1)
	_ = ys
	if undefinedA == undefinedA || missing.B != missing.B {
	}
	switch undefinedT.(type) {
	case int, missing.T:
	}
	switch v := undefinedT.(type) {
	case nil:
		_ = v
	}
	_ = len(undefinedSlice) >= 0
	_ = int16(undefinedInt) < int16(0)
	_ = *new(missing.T)
	_ = string(undefinedBytes) == ""
	_ = undefinedStr + "" + undefinedStr
	undefinedX = undefinedX + 1
	defer undefinedF()
	go missing.G()
	var m map[missing.K]missing.V
	_ = m[undefinedKey]
	_ = func(p missing.Huge, q [1024]undefinedElem) {}
	_ = undefinedPtr.field.method(undefinedArg...)
	_ = S{n: undefinedN}.n
	_ = &undefinedComposite{a: 1}
	return
}

func (r *undefinedRecv) m(x missing.T) (missing.U, error) { return r.f(), nil }

func ill3(a undefinedParam, b ...missing.Variadic) (c undefinedResult) {
	c, _ = a.(undefinedAssert)
	return
}
"""

BROKEN = {
    "syntax": {"a.go": "package a\n\nfunc F( {\n"},
    "types": {"a.go": "package a\n\nfunc F() int { x := 1; x = x + 1; return \"s\" }\n\nfunc G(xs []int) bool { return len(xs) >= 0 }\n"},
    "import": {"a.go": "package a\n\nimport \"example.com/nowhere/zzz\"\n\nfunc F() { zzz.G() }\n\nfunc G(xs []int) bool { return len(xs) >= 0 }\n"},
    "mixed": {"a.go": "package a\n\nfunc F() {}\n", "b.go": "package b\n\nfunc G() {}\n"},
    # files whose package clause does not parse: the parser returns a stub file without a position
    "empty": {"a.go": "package a\n\nfunc F(xs []int) bool { return len(xs) >= 0 }\n", "empty.go": ""},
    "noclause": {"a.go": "package a\n\nfunc F(xs []int) bool { return len(xs) >= 0 }\n", "typo.go": "pakage a\n\nfunc G() {}\n"},
    "commentonly": {"a.go": "package a\n\nfunc F(xs []int) bool { return len(xs) >= 0 }\n", "c.go": "// only a comment\n\n/* and a block */\n"},
    "onlyempty": {"empty.go": ""},
    "clauseonly_bad": {"a.go": "package\n"},
    # imports the type checker rejects: there is no package-name object for them
    "initimport": {"a.go": "package a\n\nimport init \"fmt\"\n\nfunc F() { init.Println() }\n\nfunc G(xs []int) bool { return len(xs) >= 0 }\n"},
    "badpath": {"a.go": "package a\n\nimport \"foo bar\"\n\nfunc G(xs []int) bool { return len(xs) >= 0 }\n"},
    "emptypath": {"a.go": "package a\n\nimport \"\"\n\nfunc G(xs []int) bool { return len(xs) >= 0 }\n"},
    "escpath": {"a.go": "package a\n\nimport x \"\\qfmt\"\n\nfunc F() { x.Println() }\n\nfunc G(xs []int) bool { return len(xs) >= 0 }\n"},
    "redeclared": {"a.go": "package a\n\nimport (\n\tfmt \"os\"\n\tfmt \"fmt\"\n)\n\nfunc F() { fmt.Println() }\n\nfunc G(xs []int) bool { return len(xs) >= 0 }\n"},
    "selfimport": {"a.go": "package selfimport\n\nimport me \"example.com/broken/selfimport\"\n\nfunc F() { me.F() }\n\nfunc G(xs []int) bool { return len(xs) >= 0 }\n"},
    "dotnowhere": {"a.go": "package a\n\nimport . \"example.com/nowhere/dot\"\n\nfunc F() { Undefined() }\n\nfunc G(xs []int) bool { return len(xs) >= 0 }\n"},
    "undefined": {"a.go": "package a\n\nfunc F() { var x T; x.m(); y := undefinedFn(x); _ = y }\n\nfunc H(s string) bool { return len(s) == 0 }\n",
                  "b.go": ILL_TYPED},
}


def load_errors(ctx, bins, thorough):
    d = os.path.dirname(ctx.path("ws_load", "go.mod"))
    open(os.path.join(d, "go.mod"), "w").write("module example.com/broken\n\ngo 1.21\n")
    os.makedirs(os.path.join(d, "good"), exist_ok=True)
    open(os.path.join(d, "good", "g.go"), "w").write("package good\n\nfunc G(xs []int) bool { return len(xs) >= 0 }\n")
    for k, files in BROKEN.items():
        os.makedirs(os.path.join(d, k), exist_ok=True)
        for fn, src in files.items():
            open(os.path.join(d, k, fn), "w").write(src)
    runs = 0
    for k in BROKEN:
        for fe in (bins if thorough else ("cli", "analysis")):
            for sel in (["-enableAll"] if fe in ("cli", "twin") else ["-enable-all"]), []:
                args = (["check"] if fe in ("cli", "twin") else []) + sel + ["./" + k, "./good"]
                r = subprocess.run([bins[fe]] + args, cwd=d, capture_output=True, text=True, env=vlib.goenv(), timeout=600)
                runs += 1
                err = r.stderr + r.stdout
                if CRASH.search(err):
                    ctx.fail("Crash load-error %s %s" % (fe_kind(fe), k), "%s %s on a package with a %s error crashed: %s"
                             % (os.path.basename(BIN[fe]), " ".join(args), k, first_crash_line(err)), {"args": args, "stderr": err[-1500:]})
    return runs
