SPECIFICATION SpecFlow
CONSTANTS
  MaxM = 6
  AssignBools = TRUE
INVARIANTS UsedIsConfigured
