"""C11 - regular-expression rewrites accept exactly the same language.

Spec: Regex.tla - regular-expression ASTs as the quasilyte parser sees them, leftmost-first matching with numbered and named
captures, and a transcription of regexpSimplify's rewrite actions with their context guards and the two-pass driver. SameLanguage
holds with the guards of the repaired tree plus the leftmost-first guard on prefix factoring, and every what-if (one guard off)
refutes it. Every enumerated AST (11 000+ quick, many more thorough) is printed and placed in regexp.MustCompile("...") in
generated files; the real checker analyses them (fresh instance per file, sequentially and with all files concurrently); Go's
regexp judges every real suggestion (compiles, same number and names of groups, same FindStringSubmatchIndex on every subject up
to length 4 over the pattern's alphabet plus a foreign character) and validates the module's own matcher on the exported Find
results (any disagreement makes the run undecided). The model's predicted output is compared with the real one (drift is reported,
never a verdict); violations are classified by the rewrite actions the model applied.
"""
import collections
import concurrent.futures
import json
import os

import vlib

CFG = """SPECIFICATION Spec
CONSTANTS
  Level = %(level)d
  Slice = %(slice)d
  SimOff = %(simoff)d
  SimN = %(simn)d
  ExportFinds = %(finds)s
  GuardAltMeta = %(alt)s
  GuardBrace = %(brace)s
  GuardZeroCap = %(zero)s
  GuardEmptyAlt = %(empty)s
  GuardPrefixOrder = %(prefix)s
  PadOctal = %(octal)s
  FlagPrefix = %(flag)s
  GuardRangeSafe = %(range)s
  GuardCombineCap = %(combine)s
  GuardBraceComma = %(comma)s
  GuardLazyRep = %(lazyrep)s
  GuardRangeBeforeDash = %(rangedash)s
INVARIANTS %(inv)s
"""
SOUND = dict(alt="TRUE", brace="TRUE", zero="TRUE", empty="TRUE", prefix="TRUE", octal="TRUE", flag="TRUE", range="TRUE", combine="TRUE", comma="TRUE", lazyrep="TRUE", rangedash="TRUE")
# the repaired tree: all context guards, but prefix factoring as the repository's own tests assert it
CODE = dict(SOUND, prefix="FALSE", comma="FALSE")
SUBJ = {"SOH": "\x01"}


def cfg(level, guards, finds=False, inv="SameLanguage", slice=0, simoff=0, simn=1):
    d = dict(guards)
    d.update(level=level, slice=slice, simoff=simoff, simn=simn, finds="TRUE" if finds else "FALSE", inv=inv)
    return CFG % d


def join(tokens):
    return "".join(tokens)


def run(ctx):
    thorough = ctx.tier == "thorough"
    design = {}
    # (level, slice) instances: the quick enumeration, plus in the thorough tier every context slice of level 2
    # level 3: pseudo-random deeper terms, seeds chosen by VERIF_SEED (chunks of 3000 seeds)
    nsim = 8 if thorough else 2
    insts = [(1, 0)] + ([(2, k) for k in range(1, 15)] if thorough else []) + [(3, ctx.seed * 100000 % 30000 + 3000 * j) for j in range(nsim)]
    d = ctx._spec()

    def one(inst):
        level, sl = inst
        tag = "l%ds%d" % (level, sl)
        kw = dict(slice=sl) if level != 3 else dict(simoff=sl, simn=3000)
        open(os.path.join(d, "sound_%s.cfg" % tag), "w").write(cfg(level, SOUND, **kw))
        open(os.path.join(d, "code_%s.cfg" % tag), "w").write(cfg(level, CODE, finds=(level == 1), inv="TypeOK", **kw))
        w = 4
        r1 = ctx.tlc("Regex", cfg="sound_%s.cfg" % tag, workers=w, timeout=3000, expect="ok", heap="6g")
        ctx.tlc("Regex", cfg="code_%s.cfg" % tag, workers=w, timeout=3000, dump="regex_" + tag, expect="ok", heap="6g")
        return r1.distinct // 2
    with concurrent.futures.ThreadPoolExecutor(max_workers=4) as pool:
        counts = list(pool.map(one, insts))
    design["terms"] = sum(counts)
    design["instances"] = ["level %d %s %d: %d terms" % (l, "seeds from" if l == 3 else "slice", k, c) for (l, k), c in zip(insts, counts)]
    guards = ("alt", "brace", "zero", "empty", "prefix", "octal", "flag", "range", "combine", "comma", "lazyrep", "rangedash")

    def whatif(g):
        w = dict(SOUND)
        w[g] = "FALSE"
        open(os.path.join(d, "whatif_%s.cfg" % g), "w").write(cfg(0, w))
        return ctx.tlc("Regex", cfg="whatif_%s.cfg" % g, workers=4, timeout=900, expect="violation").violated
    with concurrent.futures.ThreadPoolExecutor(max_workers=4) as pool:
        for g, v in zip(guards, pool.map(whatif, guards)):
            design["whatif_no_" + g] = v
    states = []
    for level, sl in insts:
        states += [s for s in vlib.parse_dump(ctx.spec_path("regex_l%ds%d.dump" % (level, sl))) if s["ncap"] != -1]
    cases = []
    # long patterns first: they end up in one generated file and are analysed by the same checker instance
    states.sort(key=lambda s: -len(join(s["pat"])) if len(join(s["pat"])) > 45 else 0)
    for i, s in enumerate(states):
        c = {"id": i, "pat": join(s["pat"]), "alpha": sorted(SUBJ.get(a, a) for a in s["alpha"])}
        if s.get("wit"):
            c["wit"] = [SUBJ.get(a, a) for a in s["wit"]]
        if pairs(s["finds"]):
            c["subjects"] = [join(SUBJ.get(a, a) for a in k) for k, _ in pairs(s["finds"])]
        cases.append(c)
    # the same patterns at call sites of the POSIX constructors (every 7th): a suggestion there is judged with CompilePOSIX
    nmodel = len(cases)
    for c in [c for k, c in enumerate(cases[:nmodel]) if k % 7 == 0]:
        pc = {"id": len(cases), "pat": c["pat"], "alpha": c["alpha"], "ctor": "MustCompilePOSIX"}
        if c.get("wit"):
            pc["wit"] = c["wit"]
        cases.append(pc)
    # outside the model's grammar (no `[` inside a class there): class bodies that only LOOK like a POSIX class while their
    # punctuation is escaped - `[[\:alpha\:]]` is the class {[ : a l p h} followed by `]`; unescaping makes it [[:alpha:]].
    # Judged by regexp alone (no model prediction for these).
    nposix_end = len(cases)
    for pat in lookalikes():
        cases.append({"id": len(cases), "pat": pat, "alpha": sorted(set(ch for ch in pat if ch not in "\\^"))[:9]})
    inp, outp = ctx.path("c11_cases.json"), ctx.path("c11_out.json")
    json.dump(cases, open(inp, "w"))
    work = os.path.dirname(ctx.path("c11_work", "x"))
    conc = 12 if thorough else 4
    rr = ctx.run_vh(["regex", "-in", inp, "-out", outp, "-work", work, "-conc", str(conc)], timeout=3000, race=True, check=False)
    if "DATA RACE" in rr.stderr:
        rep = rr.stderr[rr.stderr.index("WARNING: DATA RACE"):][:6000]
        where = [l.strip() for l in rep.splitlines() if "go-critic/checkers" in l or "quasilyte/regex" in l][:2]
        ctx.fail("ConcurrentRun data race", "two regexpSimplify instances running at once race on shared state (%s)" % "; ".join(where), {"race_report": rep})
    if rr.returncode not in (0, 66) or not os.path.exists(outp):
        raise vlib.Infra("harness failed (rc=%d): %s" % (rr.returncode, rr.stderr[-3000:]))
    out = json.load(open(outp))
    res = out["results"]
    for e in out.get("conc_errors") or []:
        ctx.fail("ConcurrentRun error", "regexpSimplify failed when several instances ran at once: %s" % e[:300], {"error": e})
    invalid = drift = validated = 0
    kinds = collections.Counter()
    posix_sites = nposix_end - nmodel
    look_rewritten = 0
    for c, r in zip(cases[nposix_end:], res[nposix_end:]):
        look_rewritten += 1 if r.get("sugg") else 0
        if r.get("verdict") and r["valid"]:
            esc = "colon" if "\\:" in c["pat"] else "other"
            ctx.fail("lookalike %s %s" % (r["verdict"].split(" ")[0], esc), "regexpSimplify rewrites `%s` as `%s`: %s"
                     % (c["pat"], r.get("sugg"), explain(r)), {"pattern": c["pat"], "suggestion": r.get("sugg"), "verdict": r["verdict"], "witness": r.get("witness")})
    if look_rewritten < 5:
        raise vlib.Infra("the real checker rewrote only %d of the %d POSIX-lookalike patterns" % (look_rewritten, len(cases) - nposix_end))
    for c, r in zip(cases[nmodel:nposix_end], res[nmodel:nposix_end]):
        if r.get("verdict") and r["valid"]:
            ctx.fail("posix %s" % r["verdict"].split(" ")[0], "regexpSimplify rewrites the argument of regexp.MustCompilePOSIX `%s` as `%s`: %s"
                     % (c["pat"], r.get("sugg"), explain(r)), {"pattern": c["pat"], "suggestion": r.get("sugg"), "verdict": r["verdict"], "witness": r.get("witness")})
    for s, c, r in zip(states, cases, res):
        if not r["valid"]:
            invalid += 1
            continue
        # the module's matcher against Go's regexp
        if pairs(s["finds"]):
            for (k, v), subj in zip(pairs(s["finds"]), c["subjects"]):
                want = model_find(v)
                got = r["finds"].get(subj)
                if want != got:
                    raise vlib.Infra("Regex.tla's matcher disagrees with Go's regexp on `%s` / %r: model %s, regexp %s" % (c["pat"], subj, want, got))
                validated += 1
            if r["numcap"] != s["ncap"]:
                raise vlib.Infra("Regex.tla counts %d groups in `%s`, regexp %d" % (s["ncap"], c["pat"], r["numcap"]))
        predicted = join(s["out"])
        real = r.get("sugg") or c["pat"]
        same_out = predicted == real
        if not same_out:
            drift += 1
        acts = "+".join(sorted(s["acts"])) or "none"
        for alt in r.get("concdiff") or []:
            if not r.get("verdict"):
                ctx.fail("ConcurrentRun differs", "regexpSimplify suggests `%s` for `%s` when run alone and `%s` when several instances run at once"
                         % (r.get("sugg"), c["pat"], alt), {"pattern": c["pat"], "sequential": r.get("sugg"), "concurrent": alt})
        if r.get("verdict"):
            kind = r["verdict"].split(" ")[0]
            kinds[kind] += 1
            rule = acts if same_out else "unpredicted(%s)" % acts
            if s.get("ctxt"):
                rule = "+".join(sorted(s["ctxt"])) + " " + rule
            if "concurrent" in r["verdict"]:
                rule = "concurrent-run"
            ctx.fail("%s %s" % (kind, rule), "regexpSimplify rewrites `%s` as `%s`: %s"
                     % (c["pat"], real if "concurrent" not in r["verdict"] else r["verdict"], explain(r)),
                     {"pattern": c["pat"], "suggestion": real, "verdict": r["verdict"], "witness": r.get("witness"), "orig": r.get("orig"), "got": r.get("got"),
                      "model_actions": sorted(s["acts"]), "model_output": predicted})
        elif same_out and not s["same"]:
            raise vlib.Infra("Regex.tla refutes the rewrite `%s` => `%s` but Go's regexp finds no difference" % (c["pat"], real))
    if validated == 0:
        raise vlib.Infra("no Find results were validated against regexp")
    rewritten = sum(1 for r in res[:nmodel] if r.get("sugg"))
    if rewritten < nmodel // 10:
        raise vlib.Infra("the real checker rewrote only %d of %d patterns" % (rewritten, len(res)))
    st, tr = vlib.tlc_states_total(ctx)
    cov = {
        "states": st, "transitions": tr, "traces_validated_against_impl": nmodel - invalid + posix_sites,
        "patterns": nmodel, "patterns_rejected_by_regexp": invalid, "rewritten_by_real_checker": rewritten,
        "model_output_differs_from_real": drift, "matcher_results_validated": validated, "wrong_rewrites_by_kind": dict(kinds),
        "posix_call_sites": posix_sites, "posix_lookalike_patterns": len(cases) - nposix_end, "concurrent_repetitions": out.get("conc_runs"), "generated_files": out.get("files"), "design": design, "exhaustive": True,
        "samples": [{"pattern": c["pat"], "suggestion": r.get("sugg")} for c, r in list(zip(cases, res))[:3]],
    }
    return ctx.finish("model_checking", cov, ["bounded ASTs (two operator levels plus contexts) over a 17-symbol alphabet; subjects up to length 4",
                                              "flags, anchors, Unicode classes and \\Q..\\E are not enumerated",
                                              "repeats of operands that can match the empty string are not enumerated"])


def lookalikes():
    out = []
    for esc in ("\\:", "\\.", "\\="):
        plain = esc[1]
        for name in ("alpha", "digit", "a", "ab"):
            body = "[" + esc + name + esc
            out += ["[" + body + "]]", "[x" + body + "]]", "[" + body + "]x]", "[^" + body + "]]", "[\\[" + esc + name + esc + "]]",
                    "[[" + plain + name + esc + "]]", "[[" + esc + name + plain + "]]", "[" + body + "]+", "(?:[" + body + "]])"]
    return sorted(set(out))


def pairs(finds):
    return finds["#fun"] if isinstance(finds, dict) and "#fun" in finds else []


def model_find(v):
    if v is None:
        return None
    i, j, caps = v[0], v[1], v[2]
    if i == 0:
        return None
    out = [i - 1, j - 1]
    for c in caps:
        out += [c[0] - 1, c[1] - 1] if c[0] != 0 else [-1, -1]
    return out


def explain(r):
    v = r["verdict"]
    if v.startswith("nocompile"):
        return "the suggestion does not compile (%s)" % r.get("witness")
    if v.startswith("capcount"):
        return "the number of capture groups changes (%s)" % r.get("witness")
    if v.startswith("names"):
        return "the group names change (%s)" % r.get("witness")
    return "on subject %r the original matches %s, the rewrite %s" % (r.get("witness"), r.get("orig"), r.get("got"))
