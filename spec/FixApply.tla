------------------------------ MODULE FixApply ------------------------------
(***************************************************************************)
(* Applying a suggested fix to a statement list.                           *)
(* A block is a sequence of segments: target statements of a multi-        *)
(* statement rule (A, then B and C or the combined BC) and unrelated       *)
(* marker statements "m" before, between and after them.  A rule with      *)
(* wildcard statement runs ($*_) matches the whole run from A to the last  *)
(* target; its fix replaces that byte range by the template, which         *)
(* mentions only the named variables.  checkers/ruleguard_checker.go turns *)
(* the matched range into the QuickFix range; checkers/analyzer/run.go     *)
(* turns it into one TextEdit.                                             *)
(* Every block shape is an initial state; Apply is the one step.  The      *)
(* predictions (diagnostic reported, fix offered, markers lost) are        *)
(* exported and replayed on the real wrapperFunc (strings.Cut) and valSwap *)
(* rules.                                                                  *)
(***************************************************************************)
EXTENDS Naturals, Sequences, FiniteSets, TLC
CONSTANTS MaxGap,             \* number of unrelated statements per gap
          GapFormsOfferFix    \* TRUE: the pinned rules (a fix is offered although $*_ matched statements); FALSE: repaired

Forms == {"pair", "triple", "swap"}
\* pair:   A ; gap1 ; BC            i := strings.Index(s, sep) ; ... ; x, y = s[:i], s[i+1:]
\* triple: A ; gap1 ; B ; gap2 ; C  i := strings.Index(s, sep) ; ... ; x = s[:i] ; ... ; y = s[i+1:]
\* swap:   A ; B ; C adjacent only  tmp := x ; x = y ; y = tmp   (the pattern has no wildcard; reported, no fix)
Seg(k, id) == [k |-> k, id |-> id]
Markers(from, n) == [i \in 1..n |-> Seg("m", from + i - 1)]
Block(form, pre, g1, g2, post) ==
  Markers(1, pre) \o <<Seg("A", 0)>> \o Markers(10, g1)
  \o (IF form = "pair" THEN <<Seg("BC", 0)>> ELSE <<Seg("B", 0)>> \o Markers(20, g2) \o <<Seg("C", 0)>>)
  \o Markers(30, post)

VARIABLES form, segs, phase, reported, offered, after
vars == <<form, segs, phase, reported, offered, after>>

First(s) == CHOOSE i \in DOMAIN s : s[i].k = "A"
Last(s) == CHOOSE i \in DOMAIN s : s[i].k \in {"BC", "C"}
GapLen(s) == Cardinality({ i \in First(s)..Last(s) : s[i].k = "m" })
\* does some rule of the group match, and does the matching rule carry a fix?
Matches(f, s) == f # "swap" \/ GapLen(s) = 0
Offers(f, s) == f # "swap" /\ (GapLen(s) = 0 \/ GapFormsOfferFix)        \* valSwap only quotes its replacement

Init == /\ form \in Forms
        /\ \E pre \in 0..1, g1 \in 0..MaxGap, g2 \in 0..MaxGap, post \in 0..1 :
              /\ (form = "pair" => g2 = 0)
              /\ segs = Block(form, pre, g1, g2, post)
        /\ phase = "analysed" /\ reported = Matches(form, segs) /\ offered = Offers(form, segs) /\ after = <<>>
\* the edit: everything from the first to the last matched statement is replaced by one new statement
Apply == /\ phase = "analysed" /\ offered
         /\ after' = SubSeq(segs, 1, First(segs) - 1) \o <<Seg("new", 0)>> \o SubSeq(segs, Last(segs) + 1, Len(segs))
         /\ phase' = "applied"
         /\ UNCHANGED <<form, segs, reported, offered>>
Next == Apply
Spec == Init /\ [][Next]_vars

Ids(s) == { s[i].id : i \in { j \in DOMAIN s : s[j].k = "m" } }
Lost == Ids(segs) \ Ids(after)
OutsideUnchanged == phase = "applied" =>
  /\ SubSeq(after, 1, First(segs) - 1) = SubSeq(segs, 1, First(segs) - 1)
  /\ SubSeq(after, First(segs) + 1, Len(after)) = SubSeq(segs, Last(segs) + 1, Len(segs))
NoUnrelatedDeleted == phase = "applied" => Lost = {}
OneStatementReplacesRun == phase = "applied" => Len(after) = Len(segs) - (Last(segs) - First(segs))
=============================================================================
