"""C09 - suggested code is valid Go and applying a fix never damages the file.

Specs: FixApply.tla - a statement list with the target statements of a multi-statement rule and unrelated statements before,
between and after them; the rule's matched run becomes the fix range; OutsideUnchanged / NoUnrelatedDeleted /
OneStatementReplacesRun hold when a fix is offered only for adjacent targets (the repaired rules) and NoUnrelatedDeleted is refuted
for the pinned rules (fix offered although $*_ matched statements). ZeroValue.tla - type terms and a transcription of ZeroValueOf;
KeepsType holds and is refuted for two what-ifs (complex128 / named types treated as default literal types).
Binding: every block shape is rendered for the strings.Cut (pair, triple) and valSwap rules, every type term as `*new(T)`; the real
checkers analyse them; the model's predictions (diagnostic reported, fix offered, statements lost; the synthesised zero value) must
agree with the real suggestions (drift is reported), and every real suggestion - on these programs, on the repository's example
packages, on the executable rule templates of C10 and on the adversarial corpus - is applied for real and judged by go/parser and
go/types: the replacement parses as the category it replaces, the file still type-checks (imports added or dropped as an editor
would), the replaced expression keeps its type, nothing outside the range changes, no unrelated statement disappears, and a fresh
analysis of the fixed file no longer reports that diagnostic. Comment fixes are compared byte by byte with the specified edit, also
through the analysis driver after all files of the package were analysed.
"""
import collections
import json
import os
import re

import vlib
from props import analyzer_common as ac
from props import c10
from props import exec_common as ex

FCFG = "SPECIFICATION Spec\nCONSTANTS\n  MaxGap = 2\n  GapFormsOfferFix = %s\nINVARIANTS OutsideUnchanged NoUnrelatedDeleted OneStatementReplacesRun\n"
ZCFG = "SPECIFICATION Spec\nCONSTANTS\n  ParenFuncTail = %s\n  ComplexIsDefault = %s\n  NamedIsDefault = %s\nINVARIANTS KeepsType ConvUnambiguous\n"
# quoted texts that are not Go code (comment text, format verbs): not subject to the property
NOT_CODE = {"deprecatedComment", "sprintfQuotedString"}


def run(ctx):
    design = {}
    r = ctx.tlc("FixApply", cfg_text=FCFG % "FALSE", workers=2, timeout=300, dump="fixapply", expect="ok")
    design["block_shapes"] = r.distinct
    design["whatif_gapFormsOfferFix"] = ctx.tlc("FixApply", cfg_text=FCFG % "TRUE", workers=2, timeout=300, expect="violation").violated
    r = ctx.tlc("ZeroValue", cfg_text=ZCFG % ("TRUE", "FALSE", "FALSE"), workers=2, timeout=300, dump="zero", expect="ok")
    design["type_terms"] = r.distinct
    design["whatif_complexIsDefault"] = ctx.tlc("ZeroValue", cfg_text=ZCFG % ("TRUE", "TRUE", "FALSE"), workers=2, timeout=300, expect="violation").violated
    design["whatif_noParenFuncTail"] = ctx.tlc("ZeroValue", cfg_text=ZCFG % ("FALSE", "FALSE", "FALSE"), workers=2, timeout=300, expect="violation").violated
    design["whatif_namedIsDefault"] = ctx.tlc("ZeroValue", cfg_text=ZCFG % ("TRUE", "FALSE", "TRUE"), workers=2, timeout=300, expect="violation").violated
    shapes = [s for s in vlib.parse_dump(ctx.spec_path("fixapply.dump")) if s["phase"] == "analysed"]
    terms = vlib.parse_dump(ctx.spec_path("zero.dump"))
    stats = collections.Counter()
    # ---- generated programs: block shapes, type terms, rule templates, comments ----
    ts = c10.rule_templates() + extra_templates()
    by_func = {}
    for i, s in enumerate(shapes):
        t = render_shape(i, s)
        by_func[t.name] = ("shape", s)
        ts.append(t)
    for i, z in enumerate(terms):
        t = render_term(i, z)
        by_func[t.name] = ("term", z)
        ts.append(t)
    d = os.path.join(ctx.scratch, "c09gen")
    write_gen(d, ts)
    out = ex.run_fixes(ctx, d, tag="c09gen")
    sug = out["suggestions"]
    per_func = collections.defaultdict(list)
    for s in sug:
        per_func[s.get("func")].append(s)
    judge_all(ctx, sug, "generated", stats)
    drift = conformance(ctx, by_func, per_func, stats)
    # ---- the repository's example packages and the adversarial corpus ----
    outx = run_fixes_dir(ctx, "examples", "c09ex")
    judge_all(ctx, outx["suggestions"], "examples", stats)
    outa = run_fixes_dir(ctx, os.path.join(vlib.VERIF, "corpus", "adv"), "c09adv")
    judge_all(ctx, outa["suggestions"], "adv", stats)
    comments(ctx, stats)
    if stats["fix"] < 150 or stats["quoted"] < 100:
        raise vlib.Infra("too few suggestions evaluated: %r" % dict(stats))
    st, tr = vlib.tlc_states_total(ctx)
    cov = {
        "states": st, "transitions": tr, "traces_validated_against_impl": stats["fix"] + stats["quoted"],
        "suggestions_applied_and_judged": stats["fix"] + stats["quoted"], "machine_applicable_fixes": stats["fix"], "quoted_replacements": stats["quoted"],
        "not_go_code_skipped": stats["notcode"], "block_shapes_replayed": len(shapes), "type_terms_replayed": len(terms),
        "model_prediction_differs_from_real": drift, "comment_fixes_checked": stats["comment"], "analysis_driver_edits_checked": stats["driver_edits"],
        "design": design, "exhaustive": True, "by_corpus": {k: v for k, v in stats.items() if k.startswith("n_")},
        "samples": [{"shape": [x["k"] for x in shapes[0]["segs"]], "offered": shapes[0]["offered"]}],
    }
    return ctx.finish("model_checking", cov, ["statement-run shapes bounded to two unrelated statements per gap; type terms of depth two",
                                              "suggestions whose message does not name the replaced code are judged for syntax only",
                                              "the corpus-wide judgement uses go/parser and go/types as oracle (not a model)"])


# ---------------------------------------------------------------------------------------------------------------------------------
def render_shape(i, s):
    lines = []
    form = s["form"]
    for seg in s["segs"]:
        k = seg["k"]
        if k == "m":
            lines.append("\tmarker(%d)" % seg["id"])
        elif form == "swap":
            lines.append({"A": "\ttmp := x", "B": "\tx = y", "C": "\ty = tmp"}[k])
        else:
            lines.append({"A": "\ti := strings.Index(s, sep)", "BC": "\th, p = s[:i], s[i+1:]", "B": "\th = s[:i]", "C": "\tp = s[i+1:]"}[k])
    if form == "swap":
        return ex.Template("fa%03d" % i, [("x", "int"), ("y", "int")], "\n".join(lines) + "\n\treturn fmt.Sprint(x, y, fx())")
    return ex.Template("fa%03d" % i, [("s", "string"), ("sep", "string")], "\tvar h, p string\n" + "\n".join(lines) + "\n\treturn fmt.Sprint(h, p, fx())")


ELEM = {"basic": "int", "named": "T", "elemptr": "*int", "elemfunc": "func()"}


def type_text(t):
    c = t["c"]
    if c == "basic":
        return t["b"]
    if c == "named":
        return t["n"]
    if c == "unsafeptr":
        return "unsafe.Pointer"
    e = ELEM[t["e"]["c"]] if t["e"]["c"] != "basic" else t["e"]["b"]
    if t["e"]["c"] == "named":
        e = "S"
    return {"ptr": "*%s", "slice": "[]%s", "array": "[2]%s", "map": "map[string]%s", "chan": "chan %s", "rchan": "<-chan %s",
            "func": "func(%s) bool", "struct": "struct{ f %s }", "iface": "interface{ M() %s }"}[c] % e


def predicted_zero(t, z):
    tt = type_text(t)
    f = z["form"]
    if f == "none":
        return None
    if f == "lit":
        return z["lit"]
    if f == "comp":
        return tt + "{}"
    fun = "(%s)" % tt if z["paren"] else tt
    return "%s(%s)" % (fun, z["lit"])


def render_term(i, s):
    tt = type_text(s["t"])
    return ex.Template("zv%03d" % i, [], "\tv := *new(%s)\n\tvar w %s = v\n\t_ = w\n\treturn fx()" % (tt, tt))


GEN_EXTRA = '''
// declarations used by the type terms of ZeroValue.tla
type (
	MyInt   int
	MyStr   string
	MyFloat float64
	MyBool  bool
	MyCplx  complex128
	S       struct{ f int }
	E       interface{ M() int }
	MyPtr   *int
	MySlice []int
	MyFunc  func()
)

var _ unsafe.Pointer
var _ sync.Mutex
'''


def write_gen(d, ts):
    prelude = ex.PRELUDE
    ex.PRELUDE = prelude.replace('\t"strings"\n', '\t"strings"\n\t"sync"\n').replace('\t"unicode"\n)', '\t"unicode"\n\t"unsafe"\n)') + GEN_EXTRA
    try:
        ex.write_package(d, "c09gen", ts)
    finally:
        ex.PRELUDE = prelude


def extra_templates():
    T, E = ex.Template, ex.expr_template
    ts = []
    n = [0]

    def add(params, expr=None, body=None):
        n[0] += 1
        name = "c9x%03d" % n[0]
        ts.append(E(name, params, expr) if expr is not None else T(name, params, body))
    A = [("a", "Str"), ("s", "string")]
    # replaced expressions in contexts that need their exact type
    add(A, body="\tvar out string = fmt.Sprintf(\"%v\", a)\n\treturn out + fx()")
    add(A, body="\tout := fmt.Sprint(a)\n\tout += s\n\treturn out + fx()")
    add(A, body="\treturn fmt.Sprint(a) + s + fx()")
    add(A, body="\tf := func(v string) string { return v }\n\treturn f(fmt.Sprint(s)) + f(fmt.Sprintf(\"%s\", a)) + fx()")
    add([("c", "Code"), ("s", "string")], body="\tvar out string = fmt.Sprint(c)\n\treturn out + s + fx()")
    add([("c", "Code"), ("s", "string")], body="\tf := func(v string) string { return v }\n\treturn f(fmt.Sprintf(\"%s\", c)) + fx()")
    add([("e", "error")], body="\tif e == nil {\n\t\treturn fx()\n\t}\n\tvar out string = fmt.Sprint(e)\n\treturn out + fx()")
    add([], body="\tz := *new(complex128)\n\tz += 1i\n\treturn fmt.Sprint(real(z), fx())")
    add([], body="\tvar z complex64 = *new(complex64)\n\treturn fmt.Sprint(z, fx())")
    add([], body="\tvar i interface{} = *new(float32)\n\t_, ok := i.(float32)\n\treturn fmt.Sprint(ok, fx())")
    add([], body="\tvar i interface{} = *new(int)\n\t_, ok := i.(int)\n\treturn fmt.Sprint(ok, fx())")
    add([("x", "int"), ("y", "int")], body="\tvar f float64 = float64(x)\n\tf = f + 1\n\tvar u uint8 = uint8(y)\n\tu = u << 1\n\treturn fmt.Sprint(f, u, fx())")
    # a rule with a fix fires, then report-only rules of the same group fire in the same file (a fix must not travel)
    add([("s", "string"), ("t", "string")], body="\tvar wg sync.WaitGroup\n\twg.Add(1)\n\tok := strings.Index(s, t) >= 0\n\twg.Add(-1)\n\tu := strings.Replace(s, \"a\", t, -1)\n\tb := strings.Index(u, t) != -1\n\tr := strings.Map(unicode.ToTitle, s)\n\treturn fmt.Sprint(ok, u, b, r, fx())")
    # quoted code that spans several lines (function literals with several statements, switch with several clauses)
    add([("x", "int"), ("y", "int")], body="\tx = x + func() int {\n\t\tmarker(1)\n\t\tmarker(2)\n\t\treturn y\n\t}()\n\treturn fmt.Sprint(x, fx())")
    add([("x", "int"), ("y", "int")], body="\tvar err error\n\tif err = func() error {\n\t\tmarker(1)\n\t\tmarker(2)\n\t\treturn nil\n\t}(); err != nil {\n\t\treturn \"e\" + fx()\n\t}\n\treturn fmt.Sprint(x, y, fx())")
    add([("x", "int"), ("y", "int")], body="\tf := func(v int) int {\n\t\treturn double(v)\n\t}\n\tx = x * func() int {\n\t\tswitch {\n\t\tcase y > 1:\n\t\t\treturn 2\n\t\tcase y < 0:\n\t\t\treturn 3\n\t\t}\n\t\treturn 1\n\t}()\n\treturn fmt.Sprint(f(x), fx())")
    # strings.Cut: the index variable lives on after the statements
    add([("s", "string"), ("t", "string")], body="\tvar k, v string\n\ti := strings.Index(s, \"=\")\n\tk, v = s[:i], s[i+1:]\n\treturn fmt.Sprint(k, v, i, fx())")
    return ts


def run_fixes_dir(ctx, d, tag):
    outp = ctx.path("%s_out.json" % tag)
    work = os.path.dirname(ctx.path("%s_work" % tag, "x"))
    ctx.run_vh(["fixes", "-dir", d, "-out", outp, "-work", work], timeout=3000)
    return json.load(open(outp))


def judge_all(ctx, sug, corpus, stats):
    for s in sug:
        stats["n_" + corpus] += 1
        if s["checker"] in NOT_CODE and s["kind"] == "quoted":
            stats["notcode"] += 1
            continue
        stats[s["kind"]] += 1
        judge(ctx, s, corpus)


def short(s, n=110):
    return " ".join(s.split())[:n]


def judge(ctx, s, corpus):
    chk, kind = s["checker"], s["kind"]
    where = "%s:%d" % (os.path.basename(s["file"]), s["line"])
    rep = {"corpus": corpus, "suggestion": {k: s.get(k) for k in ("checker", "text", "file", "line", "kind", "from", "to", "repl", "flagged", "category",
                                                                  "parseErr", "typeErr", "typeBefore", "typeAfter", "markersLost")}}
    if chk == "commentFormatting" and kind == "fix":
        # the diagnostic is about spacing: the fixed comment is still a line comment and keeps every non-blank character in order
        def ink(t):
            return "".join(t.split())
        if not s["repl"].startswith("//") or ink(s["repl"]) != ink(s["flagged"]):
            ctx.fail("CommentFixDamaged commentFormatting", "the fix for the comment `%s` (%s) is `%s`: it changes more than the spacing"
                     % (short(s["flagged"], 60), where, short(s["repl"], 60)), rep)
        return
    if kind == "fix" and s["located"] and not s.get("posInRange", True):
        # unusual but not excluded by the property (a fix may sit at a declaration); what matters is judged below:
        # the file still type-checks and the diagnostic is gone afterwards
        ctx.notes.append("%s: the fix of `%s` (%s) does not contain the reported position" % (chk, short(s["text"], 60), where))
    if not s["located"]:
        if "{...}" in s["repl"]:
            ctx.fail("QuotedNoParse %s elided-type" % chk, "%s quotes replacement code that is not Go: `%s` (%s)" % (chk, short(s["text"]), where), rep)
        return
    if not s["replParses"]:
        cls = "placeholder" if "{ ... }" in s["repl"] else "syntax"
        ctx.fail("NoParse %s %s %s" % (chk, kind, cls), "%s proposes `%s` for `%s` (%s), which does not parse as %s: %s"
                 % (chk, short(s["repl"], 80), short(s["flagged"], 80), where, s["category"], short(s.get("parseErr", ""), 80)), rep)
        return
    if kind == "quoted" and s["text"].startswith("suggestion:"):
        return        # the message does not say which code it replaces: syntax only
    if not s["typeOK"]:
        err = s.get("typeErr", "")
        cls = ("multi-value" if "values" in err or "too many arguments" in err else "undefined" if "undefined" in err or "declared and not used" in err
               else "mismatch" if "cannot use" in err or "mismatched types" in err else "other")
        ctx.fail("NoTypeCheck %s %s %s" % (chk, kind, cls), "after replacing `%s` by `%s` (%s: %s) the file no longer type-checks: %s"
                 % (short(s["flagged"], 70), short(s["repl"], 70), chk, where, short(err.split(": ", 1)[-1], 140)), rep)
        return
    if not s["typeKept"]:
        ctx.fail("TypeChanged %s %s->%s" % (chk, s.get("typeBefore"), s.get("typeAfter")), "%s replaces `%s` (%s) by `%s` (%s) (%s)"
                 % (chk, short(s["flagged"], 60), s.get("typeBefore"), short(s["repl"], 60), s.get("typeAfter"), where), rep)
    # the same diagnostic at the same place after the edit; a nested construct may legitimately take the place of the repaired one,
    # but only if the edit touched that place at all
    if s["stillThere"] or (kind == "fix" and s.get("sameAfter") and not s.get("posInRange", True)):
        ctx.fail("StillReported %s" % chk, "after applying `%s` => `%s` (%s) a fresh analysis reports the same diagnostic at the same place: %s"
                 % (short(s["flagged"], 60), short(s["repl"], 60), where, short(s["text"], 80)), rep)
    if kind == "fix" and s["markersLost"]:
        ctx.fail("DeletesStatements %s" % chk, "applying the fix of %s (%s) deletes %d unrelated statement(s): `%s` => `%s`"
                 % (chk, where, s["markersLost"], short(s["flagged"], 100), short(s["repl"], 60)), rep)


def conformance(ctx, by_func, per_func, stats):
    """The model's predictions against the real suggestions; a fix where the model says none is also judged by `judge`."""
    drift = 0
    for name, (what, m) in by_func.items():
        got = per_func.get(name, [])
        if what == "shape":
            subject = "valSwap" if m["form"] == "swap" else "wrapperFunc"
            mine = [s for s in got if s["checker"] == subject]
            reported, offered = bool(mine), any(s["kind"] == "fix" for s in mine)
            lost = sum(s["markersLost"] for s in mine if s["kind"] == "fix")
            want_lost = 0
            if (reported, offered, lost) != (m["reported"], m["offered"], want_lost):
                drift += 1
                vlib.log("drift shape %s: model reported=%s offered=%s, real reported=%s offered=%s lost=%d" % ([x["k"] for x in m["segs"]], m["reported"], m["offered"], reported, offered, lost))
                if offered and not m["offered"]:
                    ctx.fail("FixOfferedAcrossStatements %s" % subject, "%s offers a fix for a run of statements with unrelated statements in between (%s): applying it deletes %d of them"
                             % (subject, " ; ".join(x["k"] for x in m["segs"]), lost), {"shape": m, "suggestions": mine})
        else:
            mine = [s for s in got if s["checker"] == "newDeref"]
            want = predicted_zero(m["t"], m["z"])
            real = None
            for s in mine:
                mm = re.match(r"^replace `(.*)` with `(.*)`$", s["text"])
                if mm:
                    real = mm.group(2)
            if real != want:
                drift += 1
                vlib.log("drift zero value %s: model %s, real %s" % (type_text(m["t"]), want, real))
                stats["zero_drift"] += 1
    return drift


def comments(ctx, stats):
    """Comment fixes: descending lengths in several files of one package, read after the whole package was analysed (analysis driver)."""
    d = os.path.join(ctx.scratch, "c09cm")
    os.makedirs(os.path.join(d, "cm"))
    open(os.path.join(d, "go.mod"), "w").write("module example.com/c09cm\n\ngo 1.21\n")
    texts = ["//Frobnicate rotates the widget and reports how far it went, in degrees.", "//Zap is shorter than the one before.", "//Tiny one.", "//x",
             "//Another long comment that follows several short ones, to see the buffer grow again."]
    files = {}
    for fi in range(3):
        src = ["package cm\n"]
        for k, t in enumerate(texts[fi:] + texts[:fi]):
            src.append("%s\nfunc F%d_%d() {}\n" % (t.replace("//", "//f%d " % fi if False else "//"), fi, k))
        files["f%d.go" % fi] = "\n".join(src)
        open(os.path.join(d, "cm", "f%d.go" % fi), "w").write(files["f%d.go" % fi])
    out = run_fixes_dir(ctx, d, "c09cm")
    n = 0
    for s in out["suggestions"]:
        if s["checker"] == "commentFormatting":
            n += 1
            judge(ctx, s, "comments")
    if n < 12:
        raise vlib.Infra("commentFormatting produced only %d fixes on the comment package" % n)
    stats["comment"] += n
    r, res = ac.analyze(ctx, d, flags="enable=commentFormatting", tests=False)
    if res is None or not res.get("runs") or res["runs"][0].get("panic") or res["runs"][0].get("analyze_error"):
        raise vlib.Infra("analysis driver failed on the comment package: %s" % (r.stderr[-1000:],))
    edits = 0
    for dg in res["runs"][0]["diags"]:
        if "put a space" not in dg["Msg"] if "Msg" in dg else "put a space" not in dg.get("msg", ""):
            continue
        fn = (dg.get("Pos") or dg.get("pos")).split(":")[0]
        src = open(fn).read()
        for f in dg.get("Fixes") or dg.get("fixes") or []:
            mm = re.match(r"^(\d+)-(\d+) (\".*\")$", f, re.S)
            a, b, text = int(mm.group(1)), int(mm.group(2)), json.loads(mm.group(3))
            edits += 1
            if not text.startswith("//") or "".join(text.split()) != "".join(src[a:b].split()):
                ctx.fail("CommentFixDamaged commentFormatting", "through the analysis driver the edit for `%s` (%s) is `%s`: it changes more than the spacing"
                         % (short(src[a:b], 60), os.path.basename(fn), short(text, 60)), {"file": fn, "from": a, "to": b, "newText": text})
    if edits < 12:
        raise vlib.Infra("the analysis driver returned only %d comment edits" % edits)
    stats["driver_edits"] += edits
