package main

import (
	"encoding/json"
	"flag"
	"go/ast"
	"go/token"
	"go/types"
	"os"
	"path/filepath"
	"regexp"
	"sort"
	"strings"

	"verifharness/hx"
)

func init() { commands["mapscan"] = mapscan }

var warnName = regexp.MustCompile(`(?i)^warn`)

// mapscan lists the places of the checkers package where diagnostics are emitted while ranging over a map
// (directly, or through a function of the same package called in the loop body): B-extract for Determinism.tla.
func mapscan(args []string) {
	fs := flag.NewFlagSet("mapscan", flag.ExitOnError)
	out := fs.String("out", "", "output JSON")
	fs.Parse(args)
	fset := token.NewFileSet()
	pkgs, err := hx.Load(fset, hx.Repo(), false, "./checkers", "./linter", "./checkers/internal/...")
	hx.Must(err)
	type site struct {
		Pos  string `json:"pos"`
		File string `json:"file"`
		Via  string `json:"via"`
	}
	var sites []site
	for _, p := range pkgs {
		// functions of this package whose body emits a warning
		emits := map[string]bool{}
		for _, f := range p.Syntax {
			for _, d := range f.Decls {
				fd, ok := d.(*ast.FuncDecl)
				if !ok || fd.Body == nil {
					continue
				}
				if containsWarnCall(fd.Body, nil) {
					emits[fd.Name.Name] = true
				}
			}
		}
		for _, f := range p.Syntax {
			ast.Inspect(f, func(n ast.Node) bool {
				rs, ok := n.(*ast.RangeStmt)
				if !ok {
					return true
				}
				t := p.TypesInfo.TypeOf(rs.X)
				if t == nil {
					return true
				}
				if _, isMap := t.Underlying().(*types.Map); !isMap {
					return true
				}
				via := ""
				if containsWarnCall(rs.Body, nil) {
					via = "direct"
				} else if containsWarnCall(rs.Body, emits) {
					via = "callee"
				}
				if via != "" {
					pos := fset.Position(rs.Pos())
					rel, _ := filepath.Rel(hx.Repo(), pos.Filename)
					sites = append(sites, site{Pos: rel + ":" + strings.TrimPrefix(pos.String(), pos.Filename+":"), File: filepath.Base(pos.Filename), Via: via})
				}
				return true
			})
		}
	}
	sort.Slice(sites, func(i, j int) bool { return sites[i].Pos < sites[j].Pos })
	b, _ := json.MarshalIndent(map[string]interface{}{"map_emitters": sites}, "", " ")
	if *out == "" {
		os.Stdout.Write(b)
	} else {
		hx.Must(os.WriteFile(*out, b, 0o644))
	}
}

func containsWarnCall(n ast.Node, emits map[string]bool) bool {
	found := false
	ast.Inspect(n, func(n ast.Node) bool {
		c, ok := n.(*ast.CallExpr)
		if !ok {
			return true
		}
		name := ""
		switch f := c.Fun.(type) {
		case *ast.Ident:
			name = f.Name
		case *ast.SelectorExpr:
			name = f.Sel.Name
		}
		if warnName.MatchString(name) || (emits != nil && emits[name]) {
			found = true
		}
		return !found
	})
	return found
}
