SPECIFICATION TSpec
INVARIANTS Faithful NothingForeign Complete AllDelivered
POSTCONDITION Accepted
CHECK_DEADLOCK FALSE
