// Package genfirst: the first file of the package (in name order) is generated and skipped by default.
package genfirst

import (
	"log"
	"regexp"
	"sort"
	"strings"
)

type kind int

const kindA kind = iota

type sizes struct{ a, b [30]int64 }

func use(xs []int, ks []kind, s string, ss []sizes) (int, bool) {
	n := 0
	for _, v := range ss {
		n += int(v.a[0])
	}
	xs = append(xs, 1)
	xs = append(xs, 2)
	sort.Slice(xs, func(i, j int) bool { return xs[i] < xs[j] })
	re := regexp.MustCompile(`[0-9][0-9]*`)
	if strings.Index(s, "x") >= 0 && re.MatchString(s) {
		n++
	}
	defer log.Println(n)
	for _, k := range ks {
		n += len(k.String())
	}
	return n, len(xs) >= 0
}
