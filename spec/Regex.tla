-------------------------------- MODULE Regex --------------------------------
(***************************************************************************)
(* Regular expressions as the quasilyte/regex/syntax parser sees them, a   *)
(* transcription of checkers/regexpSimplify_checker.go (one walk = one     *)
(* pass; two passes, the second over the first pass' output as it is read  *)
(* back), and leftmost-first matching with numbered captures (the          *)
(* semantics of Go's regexp).  Every enumerated AST is an initial state;   *)
(* its printed pattern, the predicted rewrite, the rewrite actions applied *)
(* and the model's verdict are exported and replayed: the real checker     *)
(* analyses regexp.MustCompile(pattern) and Go's regexp judges the real    *)
(* suggestion and validates this module's matcher.                         *)
(*                                                                         *)
(* Guards (constants) name the context conditions of the rewrites; the     *)
(* values of the repaired tree are in Regex.cfg, each what-if refutes      *)
(* SameLanguage.                                                           *)
(***************************************************************************)
EXTENDS Integers, Sequences, FiniteSets, TLC
CONSTANTS Level,                 \* 0 = focus set of the what-ifs, 1 = quick enumeration, 2 = thorough
          Slice,                 \* 0 = everything; k > 0 = only the terms built around the k-th context
          ExportFinds,           \* TRUE: export Find(e, s) for every subject (matcher validation)
          GuardAltMeta,          \* x|y|z => [xyz] escapes the class metacharacters - and ]
          GuardBrace,            \* [{] is not unwrapped (a following `2}` would become a repeat)
          GuardZeroCap,          \* x{0} is dropped only if x contains no capture group
          GuardEmptyAlt,         \* an empty alternative is not a literal for prefix/suffix factoring
          PadOctal,              \* \01 is printed as \001, so that a digit that becomes its neighbour does not join the escape
          GuardPrefixOrder       \* ab|aba => aba? only if the longer literal comes first (leftmost-first choice)

Sym == {"SOH", " ", ",", "-", ".", "0", "2", "9", ":", "]", "^", "a", "b", "c", "z", "{", "}"}
Code == [c \in Sym |->
  CASE c = "SOH" -> 1 [] c = " " -> 32 [] c = "," -> 44 [] c = "-" -> 45 [] c = "." -> 46 [] c = "0" -> 48 [] c = "2" -> 50
    [] c = "9" -> 57 [] c = ":" -> 58 [] c = "]" -> 93 [] c = "^" -> 94 [] c = "a" -> 97 [] c = "b" -> 98 [] c = "c" -> 99
    [] c = "z" -> 122 [] c = "{" -> 123 [] c = "}" -> 125]
Digits == {"0", "2", "9"}
Words == Digits \cup {"a", "b", "c", "z"}
KSet(k) == CASE k = "d" -> Digits [] k = "D" -> Sym \ Digits [] k = "w" -> Words [] k = "W" -> Sym \ Words
             [] k = "s" -> {" "} [] k = "S" -> Sym \ {" "}

\* ---- AST ----------------------------------------------------------------------
Ch(c)       == [op |-> "ch", c |-> c]
Dot         == [op |-> "dot"]
EscM(c)     == [op |-> "escm", c |-> c]                    \* OpEscapeMeta  \. \- \]
EscC(c)     == [op |-> "escc", c |-> c]                    \* OpEscapeChar of a punctuation char  \, \: (and \. \^ inside a class)
EscK(k)     == [op |-> "esck", k |-> k]                    \* OpEscapeChar naming a class  \d \w \s \D \W \S
Oct         == [op |-> "oct"]                              \* \01
Oct3        == [op |-> "oct3"]                             \* \001, how the simplifier prints \01 (PadOctal)
Rng(l, h)   == [op |-> "rng", l |-> l, h |-> h]
Posix(k, n) == [op |-> "posix", k |-> k, neg |-> n]        \* [:digit:] [:^word:]
Cls(items)  == [op |-> "cls", items |-> items]
NCls(items) == [op |-> "ncls", items |-> items]
Grp(x)      == [op |-> "grp", x |-> x]                      \* (?:x)
Cap(x)      == [op |-> "cap", x |-> x]                      \* (x)
NCap(x)     == [op |-> "ncap", x |-> x]                     \* (?P<n>x)
Star(x)     == [op |-> "star", x |-> x]
Plus(x)     == [op |-> "plus", x |-> x]
Quest(x)    == [op |-> "quest", x |-> x]
Lazy(x)     == [op |-> "lazy", x |-> x]                     \* x is a star/plus/quest node
Rep(x, r)   == [op |-> "rep", x |-> x, r |-> r]             \* r: the text between the braces
Cat(xs)     == [op |-> "cat", xs |-> xs]
Alt(xs)     == [op |-> "alt", xs |-> xs]
Empty       == Cat(<<>>)

PosixName(k) == CASE k = "d" -> "digit" [] k = "w" -> "word" [] OTHER -> "space"
RECURSIVE Show(_)
ShowAll(xs, sep) == LET RECURSIVE P(_) P(k) == IF k > Len(xs) THEN <<>> ELSE (IF k > 1 THEN sep ELSE <<>>) \o Show(xs[k]) \o P(k+1) IN P(1)
Show(e) ==
  CASE e.op = "ch"    -> <<e.c>>
    [] e.op = "dot"   -> <<".">>
    [] e.op \in {"escm", "escc"} -> <<"\\", e.c>>
    [] e.op = "esck"  -> <<"\\", e.k>>
    [] e.op = "oct"   -> <<"\\", "0", "1">>
    [] e.op = "oct3"  -> <<"\\", "0", "0", "1">>
    [] e.op = "rng"   -> <<e.l, "-", e.h>>
    [] e.op = "posix" -> <<"[:">> \o (IF e.neg THEN <<"^">> ELSE <<>>) \o <<PosixName(e.k), ":]">>
    [] e.op = "cls"   -> <<"[">> \o ShowAll(e.items, <<>>) \o <<"]">>
    [] e.op = "ncls"  -> <<"[", "^">> \o ShowAll(e.items, <<>>) \o <<"]">>
    [] e.op = "grp"   -> <<"(", "?", ":">> \o Show(e.x) \o <<")">>
    [] e.op = "cap"   -> <<"(">> \o Show(e.x) \o <<")">>
    [] e.op = "ncap"  -> <<"(", "?", "P<n>">> \o Show(e.x) \o <<")">>
    [] e.op = "star"  -> Show(e.x) \o <<"*">>
    [] e.op = "plus"  -> Show(e.x) \o <<"+">>
    [] e.op \in {"quest", "lazy"} -> Show(e.x) \o <<"?">>
    [] e.op = "rep"   -> Show(e.x) \o <<"{", e.r, "}">>
    [] e.op = "cat"   -> ShowAll(e.xs, <<>>)
    [] e.op = "alt"   -> ShowAll(e.xs, <<"|">>)

\* ---- how a printed class body is read back -------------------------------------
\* units: class items; a Ch, a Ch("-") and a Ch in a row are read as a range
RECURSIVE ReadClass(_)
ReadClass(us) ==
  IF us = <<>> THEN <<>>
  ELSE IF Len(us) >= 3 /\ us[1].op = "ch" /\ us[2] = Ch("-") /\ us[3].op = "ch"
       THEN <<Rng(us[1].c, us[3].c)>> \o ReadClass(SubSeq(us, 4, Len(us)))
       ELSE <<us[1]>> \o ReadClass(SubSeq(us, 2, Len(us)))
ValidItems(items) == \A i \in DOMAIN items : items[i].op = "rng" => Code[items[i].l] <= Code[items[i].h]

\* ---- the simplifier --------------------------------------------------------------
\* a walk returns [e |-> the rewritten AST as the next pass will read it, n |-> score, a |-> actions applied]
R(e, n, a) == [e |-> e, n |-> n, a |-> a]
Flat(xs) == LET RECURSIVE F(_) F(k) == IF k > Len(xs) THEN <<>> ELSE
                  (IF xs[k] = Empty THEN <<>> ELSE IF xs[k].op = "cat" THEN xs[k].xs ELSE <<xs[k]>>) \o F(k+1) IN F(1)
MkCat(xs) == LET ys == Flat(xs) IN IF Len(ys) = 1 THEN ys[1] ELSE Cat(ys)
AllChars(xs) == \A i \in DOMAIN xs : xs[i].op = "ch"
CanMerge(x, y) == x.op = y.op /\ x.op \in {"ch", "cls", "escm", "escc", "esck", "ncls", "grp"} /\ Show(x) = Show(y)
\* threshold for x x x ... => x{n}; 0 = cannot combine
Threshold(x, y) == IF x.op # y.op THEN 0
                   ELSE CASE x.op = "dot" -> 3
                          [] x.op = "ch" -> IF x.c # y.c THEN 0 ELSE IF x.c = " " THEN 1 ELSE 4
                          [] x.op \in {"escm", "escc", "esck"} -> IF Show(x) = Show(y) THEN 2 ELSE 0
                          [] x.op \in {"cls", "ncls", "grp"} -> IF Show(x) = Show(y) THEN 1 ELSE 0
                          [] OTHER -> 0
ConcatLiteral(e) == IF e.op = "cat" /\ AllChars(e.xs) /\ (GuardEmptyAlt => e.xs # <<>>)
                    THEN (IF e.xs = <<>> THEN <<"|">> ELSE [i \in DOMAIN e.xs |-> e.xs[i].c]) ELSE <<>>
IsPrefix(p, s) == Len(p) <= Len(s) /\ SubSeq(s, 1, Len(p)) = p
IsSuffix(p, s) == Len(p) <= Len(s) /\ SubSeq(s, Len(s) - Len(p) + 1, Len(s)) = p
Chars(cs) == [i \in DOMAIN cs |-> Ch(cs[i])]
RECURSIVE HasCap(_)
HasCap(e) == CASE e.op \in {"cap", "ncap"} -> TRUE
               [] e.op \in {"grp", "star", "plus", "quest", "lazy", "rep"} -> HasCap(e.x)
               [] e.op \in {"cat", "alt"} -> \E i \in DOMAIN e.xs : HasCap(e.xs[i])
               [] OTHER -> FALSE
Removable == {",", ".", ":"}                          \* of the escapes in the alphabet, those the code un-escapes
ClassMeta == {"-", "]"}
NoUnwrap == {"|", "*", "+", "?", ".", "[", "^", "$", "(", ")"} \cup (IF GuardBrace THEN {"{"} ELSE {})
Mid(l) == CHOOSE c \in Sym : Code[c] = Code[l] + 1

ClsTable(e) ==      \* simplifyCharClass / simplifyNegCharClass: whole-class spellings
  LET i == IF Len(e.items) = 1 THEN e.items[1] ELSE Dot IN
  IF e.op = "cls" THEN
    CASE i = Rng("0", "9") -> EscK("d")
      [] i.op = "posix" -> EscK(IF i.neg THEN (CASE i.k = "d" -> "D" [] i.k = "w" -> "W" [] OTHER -> "S") ELSE i.k)
      [] i = Ch("]") -> EscM("]")
      [] OTHER -> Empty
  ELSE
    CASE i = Rng("0", "9") -> EscK("D")
      [] i.op = "esck" -> EscK(CASE i.k = "s" -> "S" [] i.k = "S" -> "s" [] i.k = "w" -> "W" [] i.k = "W" -> "w" [] i.k = "d" -> "D" [] OTHER -> "d")
      [] i.op = "posix" -> EscK(IF i.neg THEN i.k ELSE (CASE i.k = "d" -> "D" [] i.k = "w" -> "W" [] OTHER -> "S"))
      [] OTHER -> Empty

RECURSIVE Walk(_)
WalkSeq(xs) == [i \in DOMAIN xs |-> Walk(xs[i])]
Sum(rs) == LET RECURSIVE S(_) S(k) == IF k = 0 THEN 0 ELSE S(k-1) + rs[k].n IN S(Len(rs))
Acts(rs) == UNION { rs[k].a : k \in DOMAIN rs }
WalkConcat(xs) ==
  LET RECURSIVE Go(_)
      Go(i) == IF i > Len(xs) THEN R(<<>>, 0, {})
               ELSE LET x == xs[i]  w == Walk(x) IN
                    IF i = Len(xs) THEN R(<<w.e>>, w.n, w.a)
                    ELSE IF xs[i+1].op = "star" /\ CanMerge(x, xs[i+1].x)
                         THEN LET rest == Go(i+2) IN R(<<Plus(w.e)>> \o rest.e, w.n + 1 + rest.n, w.a \cup {"MergeStar"} \cup rest.a)
                    ELSE LET th == Threshold(x, xs[i+1])
                             run == IF th = 0 THEN 0 ELSE
                                      LET RECURSIVE Cnt(_) Cnt(j) == IF j > Len(xs) \/ Threshold(x, xs[j]) = 0 THEN 0 ELSE 1 + Cnt(j+1) IN Cnt(i+1)
                         IN IF th # 0 /\ run >= th
                            THEN LET rest == Go(i+1+run) IN R(<<Rep(w.e, ToString(run+1))>> \o rest.e, w.n + 1 + rest.n, w.a \cup {"RunLength"} \cup rest.a)
                            ELSE LET rest == Go(i+1) IN R(<<w.e>> \o rest.e, w.n + rest.n, w.a \cup rest.a)
  IN LET g == Go(1) IN R(MkCat(g.e), g.n, g.a)
WalkAlt(xs) ==
  IF AllChars(xs)
  THEN R(Cls(ReadClass([i \in DOMAIN xs |-> IF GuardAltMeta /\ xs[i].c \in ClassMeta THEN EscM(xs[i].c) ELSE xs[i]])), 1, {"AltToClass"})
                                                                         \* x|y|z => [xyz] (- and ] escaped), re-read as a class body
  ELSE LET x0 == IF Len(xs) = 2 THEN ConcatLiteral(xs[1]) ELSE <<>>
           y0 == IF Len(xs) = 2 THEN ConcatLiteral(xs[2]) ELSE <<>>
           swap == Len(x0) > Len(y0)
           x == IF swap THEN y0 ELSE x0
           y == IF swap THEN x0 ELSE y0
       IN IF Len(xs) = 2 /\ x0 # y0 /\ IsPrefix(x, y) /\ Len(y) - Len(x) = 1 /\ (GuardPrefixOrder => swap \/ x = <<>>)
          THEN R(MkCat(Chars(x) \o <<Quest(Ch(y[Len(y)]))>>), 1, {"FactorPrefix"})
          ELSE IF Len(xs) = 2 /\ x0 # y0 /\ IsSuffix(x, y) /\ Len(y) - Len(x) = 1 /\ ~(IsPrefix(x, y) /\ GuardPrefixOrder)
          THEN R(MkCat(<<Quest(Ch(y[1]))>> \o Chars(x)), 1, {"FactorSuffix"})
          ELSE LET ws == WalkSeq(xs) IN R(Alt([i \in DOMAIN ws |-> ws[i].e]), Sum(ws), Acts(ws))
WalkItems(items) ==
  LET ws == WalkSeq(items)
      units == LET RECURSIVE F(_) F(k) == IF k > Len(ws) THEN <<>> ELSE
                    (IF ws[k].e.op = "cat" THEN ws[k].e.xs ELSE
                     IF ws[k].e.op = "rng" THEN <<Ch(ws[k].e.l), Ch("-"), Ch(ws[k].e.h)>> ELSE <<ws[k].e>>) \o F(k+1) IN F(1)
  IN R(ReadClass(units), Sum(ws), Acts(ws))
Walk(e) ==
  CASE e.op = "cat"   -> WalkConcat(e.xs)
    [] e.op = "alt"   -> WalkAlt(e.xs)
    [] e.op = "rng"   -> LET d == Code[e.h] - Code[e.l] IN
                         CASE d = 0 -> R(Ch(e.l), 1, {"RangeExpand"})
                           [] d = 1 -> R(Cat(<<Ch(e.l), Ch(e.h)>>), 1, {"RangeExpand"})
                           [] d = 2 -> R(Cat(<<Ch(e.l), Ch(Mid(e.l)), Ch(e.h)>>), 1, {"RangeExpand"})
                           [] OTHER -> R(e, 0, {})
    [] e.op = "grp"   -> LET w == Walk(e.x) IN
                         IF e.x.op \in {"ch", "escc", "esck", "escm", "cls"} THEN R(w.e, w.n + 1, w.a \cup {"GroupOfAtom"}) ELSE R(Grp(w.e), w.n, w.a)
    [] e.op = "cap"   -> LET w == Walk(e.x) IN R(Cap(w.e), w.n, w.a)
    [] e.op = "ncap"  -> LET w == Walk(e.x) IN R(NCap(w.e), w.n, w.a)
    [] e.op = "rep"   -> LET w == Walk(e.x) IN
                         CASE e.r = "0,1" -> R(Quest(w.e), w.n + 1, w.a \cup {"RepeatNormalise"})
                           [] e.r = "1,"  -> R(Plus(w.e), w.n + 1, w.a \cup {"RepeatNormalise"})
                           [] e.r = "0,"  -> R(Star(w.e), w.n + 1, w.a \cup {"RepeatNormalise"})
                           [] e.r = "0"   -> IF GuardZeroCap /\ HasCap(e.x) THEN R(Rep(w.e, e.r), w.n, w.a)
                                             ELSE R(Empty, 1, {"RepeatZeroRemoval"})      \* the operand is not even walked
                           [] e.r = "1"   -> R(w.e, w.n + 1, w.a \cup {"RepeatOneRemoval"})
                           [] OTHER       -> R(Rep(w.e, e.r), w.n, w.a)
    [] e.op \in {"cls", "ncls"} ->
         LET t == ClsTable(e) IN
         IF t # Empty THEN R(t, 1, {"ClassTable"})
         ELSE IF e.op = "cls" /\ Len(e.items) = 1 /\ e.items[1].op = "ch" /\ e.items[1].c \notin NoUnwrap
         THEN R(e.items[1], 1, {"SingleElemClass"})
         ELSE IF e.op = "cls" /\ Len(e.items) = 1 /\ e.items[1].op \in {"escc", "esck"}
         THEN R(IF e.items[1].op = "escc" /\ e.items[1].c \in {".", "^"} THEN EscM(e.items[1].c) ELSE e.items[1], 1, {"SingleElemClass"})
         ELSE LET w == WalkItems(e.items) IN R(IF e.op = "cls" THEN Cls(w.e) ELSE NCls(w.e), w.n, w.a)
    [] e.op = "oct"   -> R(IF PadOctal THEN Oct3 ELSE Oct, 0, {})
    [] e.op = "escc"  -> IF e.c \in Removable THEN R(Ch(e.c), 1, {"EscapeRemoval"}) ELSE R(e, 0, {})
    [] e.op = "star"  -> LET w == Walk(e.x) IN R(Star(w.e), w.n, w.a)
    [] e.op = "plus"  -> LET w == Walk(e.x) IN R(Plus(w.e), w.n, w.a)
    [] e.op = "quest" -> LET w == Walk(e.x) IN R(Quest(w.e), w.n, w.a)
    [] e.op = "lazy"  -> LET w == Walk(e.x) IN R(Lazy(w.e), w.n, w.a)
    [] OTHER -> R(e, 0, {})
\* how a printed concatenation is read back: `{2}` after something repeatable is a repeat; \01 followed by 2 is the escape \012
RECURSIVE Reread(_)
RereadCat(xs) ==
  LET RECURSIVE G(_, _)
      G(k, acc) == IF k > Len(xs) THEN acc
                   ELSE IF acc # <<>> /\ k + 2 <= Len(xs) /\ xs[k] = Ch("{") /\ xs[k+1] = Ch("2") /\ xs[k+2] = Ch("}")
                        THEN G(k+3, SubSeq(acc, 1, Len(acc) - 1) \o <<Rep(acc[Len(acc)], "2")>>)
                   ELSE IF k + 1 <= Len(xs) /\ xs[k] = Oct /\ xs[k+1] = Ch("2")
                        THEN G(k+2, Append(acc, EscM("n")))                  \* a newline: matches nothing of the alphabet
                        ELSE G(k+1, Append(acc, Reread(xs[k])))
  IN G(1, <<>>)
Reread(e) == CASE e.op = "cat" -> MkCat(RereadCat(e.xs))
               [] e.op = "alt" -> Alt([k \in DOMAIN e.xs |-> Reread(e.xs[k])])
               [] e.op \in {"grp", "cap", "ncap", "star", "plus", "quest", "lazy"} -> [e EXCEPT !.x = Reread(e.x)]
               [] e.op = "rep" -> Rep(Reread(e.x), e.r)
               [] OTHER -> e
\* two passes; an empty candidate string ends the pass loop exactly like "no score"
Simp(e) == LET p1 == Walk(e) IN
           IF p1.n = 0 \/ Show(p1.e) = <<>> THEN R(e, 0, {})
           ELSE LET r1 == Reread(p1.e)
                    p2 == Walk(r1)
                IN IF p2.n = 0 \/ Show(p2.e) = <<>> THEN R(r1, p1.n, p1.a) ELSE R(Reread(p2.e), p1.n + p2.n, p1.a \cup p2.a)
Simplify(e) == Simp(e).e

\* ---- matching: leftmost-first with numbered captures --------------------------------
RECURSIVE NCaps(_)
NCapsSeq(xs) == LET RECURSIVE S(_) S(k) == IF k = 0 THEN 0 ELSE S(k-1) + NCaps(xs[k]) IN S(Len(xs))
NCaps(e) == CASE e.op \in {"cap", "ncap"} -> 1 + NCaps(e.x)
              [] e.op \in {"grp", "star", "plus", "quest", "lazy", "rep"} -> NCaps(e.x)
              [] e.op \in {"cat", "alt"} -> NCapsSeq(e.xs)
              [] OTHER -> 0
RECURSIVE Names(_)
Names(e) == CASE e.op = "ncap" -> <<"n">> \o Names(e.x)
              [] e.op = "cap" -> <<"">> \o Names(e.x)
              [] e.op \in {"grp", "star", "plus", "quest", "lazy", "rep"} -> Names(e.x)
              [] e.op \in {"cat", "alt"} -> LET RECURSIVE S(_) S(k) == IF k > Len(e.xs) THEN <<>> ELSE Names(e.xs[k]) \o S(k+1) IN S(1)
              [] OTHER -> <<>>
ItemSet(it) == CASE it.op = "ch" -> {it.c}
                 [] it.op \in {"escm", "escc"} -> {it.c}
                 [] it.op = "esck" -> KSet(it.k)
                 [] it.op \in {"oct", "oct3"} -> {"SOH"}
                 [] it.op = "dot" -> Sym
                 [] it.op = "rng" -> { c \in Sym : Code[it.l] <= Code[c] /\ Code[c] <= Code[it.h] }
                 [] it.op = "posix" -> IF it.neg THEN Sym \ KSet(it.k) ELSE KSet(it.k)
AtomSet(e) == CASE e.op = "cls" -> UNION { ItemSet(e.items[k]) : k \in DOMAIN e.items }
                [] e.op = "ncls" -> Sym \ UNION { ItemSet(e.items[k]) : k \in DOMAIN e.items }
                [] OTHER -> ItemSet(e)
IsAtom(e) == e.op \in {"ch", "escm", "escc", "esck", "oct", "oct3", "dot", "cls", "ncls"}
FlatMap(seq, F(_)) == LET RECURSIVE G(_) G(k) == IF k > Len(seq) THEN <<>> ELSE F(seq[k]) \o G(k+1) IN G(1)
St(i, caps) == [i |-> i, caps |-> caps]
\* M(e, s, st, base): results in priority order; base = number of capture groups opened before e
RECURSIVE M(_, _, _, _)
MSeq(xs, s, st, base) ==
  LET RECURSIVE Go(_, _, _)
      Go(k, cur, b) == IF k > Len(xs) THEN <<cur>> ELSE FlatMap(M(xs[k], s, cur, b), LAMBDA nx : Go(k+1, nx, b + NCaps(xs[k])))
  IN Go(1, st, base)
Times(x, s, st, base, lo, hi, lazy) ==      \* x{lo,hi}; hi = -1 unbounded; optional iterations must consume
  LET RECURSIVE It(_, _)
      It(cur, k) == LET more == IF hi = -1 \/ k < hi
                                THEN FlatMap(M(x, s, cur, base), LAMBDA nx : IF nx.i > cur.i \/ k < lo THEN It(nx, k+1) ELSE <<>>)
                                ELSE <<>>
                        stop == IF k >= lo THEN <<cur>> ELSE <<>>
                    IN IF lazy THEN stop \o more ELSE more \o stop
  IN It(st, 0)
Bounds(r) == CASE r = "0" -> <<0, 0>> [] r = "1" -> <<1, 1>> [] r = "2" -> <<2, 2>> [] r = "3" -> <<3, 3>> [] r = "4" -> <<4, 4>>
               [] r = "5" -> <<5, 5>> [] r = "6" -> <<6, 6>> [] r = "0,1" -> <<0, 1>> [] r = "1," -> <<1, -1>> [] r = "0," -> <<0, -1>>
               [] r = "1,2" -> <<1, 2>> [] OTHER -> <<9, 9>>
Quant(q, s, st, base, lazy) ==
  CASE q.op = "star"  -> Times(q.x, s, st, base, 0, -1, lazy)
    [] q.op = "plus"  -> Times(q.x, s, st, base, 1, -1, lazy)
    [] q.op = "quest" -> Times(q.x, s, st, base, 0, 1, lazy)
M(e, s, st, base) ==
  CASE IsAtom(e)      -> IF st.i <= Len(s) /\ s[st.i] \in AtomSet(e) THEN <<St(st.i + 1, st.caps)>> ELSE <<>>
    [] e.op = "grp"   -> M(e.x, s, st, base)
    [] e.op \in {"cap", "ncap"} ->
                         LET rs == M(e.x, s, st, base + 1)
                         IN [k \in DOMAIN rs |-> St(rs[k].i, [rs[k].caps EXCEPT ![base + 1] = <<st.i, rs[k].i>>])]
    [] e.op = "cat"   -> MSeq(e.xs, s, st, base)
    [] e.op = "alt"   -> LET RECURSIVE A(_, _) A(k, b) == IF k > Len(e.xs) THEN <<>> ELSE M(e.xs[k], s, st, b) \o A(k+1, b + NCaps(e.xs[k])) IN A(1, base)
    [] e.op \in {"star", "plus", "quest"} -> Quant(e, s, st, base, FALSE)
    [] e.op = "lazy"  -> Quant(e.x, s, st, base, TRUE)
    [] e.op = "rep"   -> Times(e.x, s, st, base, Bounds(e.r)[1], Bounds(e.r)[2], FALSE)
NoCaps(n) == [k \in 1..n |-> <<0, 0>>]
Find(e, s) == LET n == NCaps(e)
                  RECURSIVE F(_) F(i) == IF i > Len(s) + 1 THEN <<0, 0, NoCaps(n)>> ELSE
                      LET r == M(e, s, St(i, NoCaps(n)), 0) IN IF r # <<>> THEN <<i, r[1].i, r[1].caps>> ELSE F(i+1)
              IN F(1)

\* ---- subjects: strings over the characters a pattern mentions plus one foreign character ----------
RECURSIVE Ment(_)
Ment(e) == CASE e.op \in {"ch", "escm", "escc"} -> {e.c}
             [] e.op \in {"oct", "oct3"} -> {"SOH"}
             [] e.op \in {"esck", "posix"} -> {"2", " "}
             [] e.op = "rng" -> {e.l, e.h}
             [] e.op = "dot" -> {}
             [] e.op \in {"cls", "ncls"} -> UNION { Ment(e.items[k]) : k \in DOMAIN e.items }
             [] e.op \in {"cat", "alt"} -> UNION { Ment(e.xs[k]) : k \in DOMAIN e.xs }
             [] OTHER -> Ment(e.x)
AlphaOf(e) == Ment(e) \cup {"z"}
Strs(e) == LET A == AlphaOf(e) IN UNION { [1..n -> A] : n \in 0..(IF Cardinality(A) <= 3 THEN 3 ELSE 2) }

\* ---- enumeration -----------------------------------------------------------------------
Lits == IF Level <= 1 THEN {"a", "-", "2"} ELSE {"a", "b", "-", "2", " "}
ChS == { Ch(c) : c \in Lits }
Atoms0 == ChS \cup {Dot, EscM("."), EscC(","), EscK("d"), Oct}
ItemsA == { Ch("a"), Ch("-"), Ch("{"), Ch("."), Ch("]"), Rng("a", "b"), Rng("a", "a"), Rng("a", "c"), Rng("-", "a"), Rng("0", "9"),
            EscC(","), EscC("."), EscC("^"), EscM("-"), EscK("d"), EscK("s"), EscK("W"), Posix("d", FALSE), Posix("w", TRUE) }
ItemsB == ItemsA \cup { Ch("b"), Ch("2"), Rng("a", "z"), EscK("D"), EscK("S"), EscK("w"), Posix("s", FALSE), Posix("s", TRUE),
                        Posix("d", TRUE), Posix("w", FALSE), EscC(":") }
Items == IF Level <= 1 THEN ItemsA ELSE ItemsB
Second == { Ch("a"), Ch("-"), Ch("^"), EscC(","), Ch("2") }
ClsSet == { Cls(<<i>>) : i \in Items } \cup { NCls(<<i>>) : i \in Items \cup {Ch("^")} }
          \cup { Cls(<<i, j>>) : i \in Items \ {Ch("-")}, j \in Second } \cup { Cls(<<Ch("-"), j>>) : j \in Second \ {Ch("-")} }
          \cup { NCls(<<i, j>>) : i \in {Ch("a"), Rng("a", "b"), EscC(","), Ch("]")}, j \in {Ch("a"), Ch("-")} }
T0 == Atoms0 \cup ClsSet
Reps == {"0", "1", "2", "0,1", "1,", "0,", "1,2"}
Post(S) == { Star(x) : x \in S } \cup { Plus(x) : x \in S } \cup { Quest(x) : x \in S } \cup { Rep(x, r) : x \in S, r \in Reps }
LazyOf(S) == { Lazy(Star(x)) : x \in S } \cup { Lazy(Plus(x)) : x \in S } \cup { Lazy(Quest(x)) : x \in S }
Wrapped == { Grp(x) : x \in T0 } \cup { Cap(x) : x \in Atoms0 } \cup { NCap(Ch("a")), Grp(Cat(<<Ch("a"), Ch("-")>>)), Grp(Alt(<<Ch("a"), Ch("-")>>))}
NullableWrapped == { Cap(Alt(<<Ch("a"), Empty>>)), Grp(Alt(<<Empty, Ch("a")>>)) }
Pairs == { Alt(<<x, y>>) : x, y \in ChS } \cup { Cat(<<x, y>>) : x, y \in ChS }
         \cup { Alt(<<x, Empty>>) : x \in ChS } \cup { Alt(<<Empty, x>>) : x \in ChS }
PostBase == IF Level <= 1 THEN Atoms0 \cup { Cls(<<Ch("a")>>), Cls(<<Ch("{")>>), Cls(<<Ch("a"), Ch("-")>>), NCls(<<EscK("s")>>), Cls(<<Rng("a", "b")>>) } ELSE T0
T1 == T0 \cup Wrapped \cup NullableWrapped \cup Post(PostBase) \cup LazyOf(Atoms0) \cup Pairs
\* contexts that change how a rewritten neighbour is read back
CtxSeq == << Ch("a"), Ch("-"), Ch("2"), Ch("{"), Star(Ch("a")), Cap(Ch("a")), Rep(Cap(Ch("a")), "0"), Cls(<<Ch("a"), Ch("b")>>),
            Dot, Ch(" "), Grp(Ch("a")), Grp(Alt(<<Ch("a"), Ch("-")>>)), EscC(","), Oct >>
\* Slice = 0: every context (level 1: the first eight); Slice = k > 0: only the k-th context and nothing else (the thorough tier
\* runs the slices as separate TLC processes: initial states are computed on one thread)
Ctx == IF Slice = 0 THEN { CtxSeq[k] : k \in 1..(IF Level <= 1 THEN 8 ELSE Len(CtxSeq)) } ELSE { CtxSeq[Slice] }
Sites == T1 \ Pairs
InCtx == { Cat(<<x, y>>) : x \in Ctx, y \in Sites } \cup { Cat(<<y, x>>) : x \in Ctx, y \in Sites }
Rest ==  { Alt(<<x, y>>) : x \in {Ch("a"), Ch("-"), Cap(Ch("a"))}, y \in Sites \ ChS }
      \cup { Alt(<<x, y, z>>) : x, y, z \in ChS }
      \cup { Cat(<<Ch("a"), x, Ch("2"), Ch("}")>>) : x \in ClsSet }
      \cup { Cat(<<x, x, x, x, x>>) : x \in {Ch("a"), Ch(" "), Dot} } \cup { Cat(<<x, x, x, x>>) : x \in {Ch("a"), Dot} }
      \cup { Cat(<<x, x, y>>) : x \in ClsSet \cup {Ch(" "), EscM("."), EscC(","), Grp(Cat(<<Ch("a"), Ch("-")>>))}, y \in {Ch("b"), Star(Ch("a"))} }
      \cup { Cat(<<x, x, x>>) : x \in {EscM("."), EscC(","), EscK("d"), Dot, Oct} }
      \cup { Cat(<<x, Star(x)>>) : x \in T0 \cup { Grp(Cat(<<Ch("a"), Ch("-")>>)) } }
      \cup Post(Wrapped) \cup Post({ Cap(x) : x \in {Cls(<<Ch("a"), Ch("b")>>), Alt(<<Ch("a"), Ch("-")>>)} })
      \cup { Alt(<<Cat(<<Ch("a"), Ch("b")>>), Cat(<<Ch("a"), Ch("b"), c>>)>>) : c \in ChS }
      \cup { Alt(<<Cat(<<Ch("a"), Ch("b"), c>>), Cat(<<Ch("a"), Ch("b")>>)>>) : c \in ChS }
      \cup { Alt(<<Cat(<<c, Ch("a"), Ch("b")>>), Cat(<<Ch("a"), Ch("b")>>)>>) : c \in ChS }
      \cup { Alt(<<Cat(<<Ch("a"), Ch("b")>>), Cat(<<c, Ch("a"), Ch("b")>>)>>) : c \in ChS }
      \cup { Cat(<<Grp(Alt(<<Cat(<<Ch("a"), Ch("b")>>), Cat(<<Ch("a"), Ch("b"), Ch("a")>>)>>)), c>>) : c \in ChS }
T2 == IF Slice > 0 THEN InCtx ELSE T1 \cup InCtx \cup Rest
\* canonical: printing and re-parsing gives the same tree (no cat under cat, no alt under alt or cat)
RECURSIVE Canon(_)
Canon(e) == CASE e.op = "cat" -> /\ \A k \in DOMAIN e.xs : e.xs[k].op \notin {"cat", "alt"} /\ Canon(e.xs[k])
                                 /\ \A k \in 1..(Len(e.xs) - 1) : ~(e.xs[k] = Oct /\ e.xs[k+1] = Ch("2"))      \* \012 is another escape
              [] e.op = "alt" -> \A k \in DOMAIN e.xs : e.xs[k].op # "alt" /\ Canon(e.xs[k])
              [] e.op \in {"cls", "ncls"} -> ValidItems(e.items)
              [] e.op \in {"grp", "cap", "ncap", "star", "plus", "quest", "lazy", "rep"} -> Canon(e.x)
              [] OTHER -> TRUE
Focus == T1 \cup { Cat(<<Ch("a"), x, Ch("2"), Ch("}")>>) : x \in ClsSet } \cup Post(Wrapped)
         \cup { Alt(<<Cat(<<Ch("a"), Ch("b")>>), Cat(<<Ch("a"), Ch("b"), c>>)>>) : c \in ChS }
         \cup { Alt(<<x, y, z>>) : x, y, z \in ChS } \cup { Cat(<<Rep(Cap(Ch("a")), "0"), Ch("-")>>), Cat(<<Rep(Oct, "1"), Ch("2")>>) }
Terms == { t \in (IF Level = 0 THEN Focus ELSE T2) : Canon(t) /\ Reread(t) = t }

Same(t) == LET o == Simplify(t) IN
           NCaps(o) = NCaps(t) /\ Names(o) = Names(t) /\ \A s \in Strs(t) : Find(o, s) = Find(t, s)

VARIABLES e, pat, out, acts, same, ncap, alpha, finds
vars == <<e, pat, out, acts, same, ncap, alpha, finds>>
\* the term is chosen in the initial state and evaluated in one step (TLC computes initial states on one thread, steps on all)
Init == e \in Terms /\ pat = <<>> /\ out = <<>> /\ acts = {} /\ same = TRUE /\ ncap = -1 /\ alpha = {} /\ finds = <<>>
Evaluate == /\ ncap = -1
            /\ pat' = Show(e)
            /\ LET r == Simp(e) IN out' = Show(r.e) /\ acts' = r.a
            /\ same' = Same(e)
            /\ ncap' = NCaps(e)
            /\ alpha' = AlphaOf(e)
            /\ finds' = IF ExportFinds THEN [s \in Strs(e) |-> Find(e, s)] ELSE <<>>
            /\ UNCHANGED e
Next == Evaluate
Spec == Init /\ [][Next]_vars
SameLanguage == same
TypeOK == same \in BOOLEAN
=============================================================================
