// Package hx is the shared library of the go-critic conformance harness:
// loading corpora (always disk-backed files with absolute names), constructing
// checkers the two legal ways, projecting warnings onto the abstract state the
// TLA+ specifications talk about, structural fingerprints and trace output.
package hx

import (
	"fmt"
	"go/token"
	"go/types"
	"os"
	"path/filepath"
	"runtime"
	"sort"
	"strings"

	"github.com/go-critic/go-critic/checkers"
	"github.com/go-critic/go-critic/linter"
	"golang.org/x/tools/go/packages"
)

// Repo is the root of the go-critic working tree under verification.
func Repo() string {
	if r := os.Getenv("VERIF_REPO"); r != "" {
		return r
	}
	return "/repo"
}

var Sizes = types.SizesFor("gc", runtime.GOARCH)

var inited bool

// Init performs the two-phase registration exactly as the CLI mains do.
func Init() {
	if inited {
		return
	}
	if err := checkers.InitEmbeddedRules(); err != nil {
		panic(err)
	}
	inited = true
}

// Infos returns the registered checkers (sorted by name), as the CLI sees them.
func Infos() []*linter.CheckerInfo {
	Init()
	return linter.GetCheckersInfo()
}

const LoadMode = packages.NeedName | packages.NeedFiles | packages.NeedCompiledGoFiles |
	packages.NeedImports | packages.NeedTypes | packages.NeedSyntax | packages.NeedTypesInfo |
	packages.NeedTypesSizes

// Load loads packages with syntax and type information, files parsed from disk.
func Load(fset *token.FileSet, dir string, tests bool, patterns ...string) ([]*packages.Package, error) {
	cfg := &packages.Config{Mode: LoadMode, Tests: tests, Fset: fset, Dir: dir,
		Env: append(os.Environ(), "GOFLAGS=-mod=mod", "GOPROXY=off", "GOSUMDB=off", "GOTOOLCHAIN=local")}
	pkgs, err := packages.Load(cfg, patterns...)
	if err != nil {
		return nil, err
	}
	sort.Slice(pkgs, func(i, j int) bool { return pkgs[i].ID < pkgs[j].ID })
	return pkgs, nil
}

// ExampleDirs lists the checker example directories (checkers/testdata/<name>).
func ExampleDirs() []string {
	root := filepath.Join(Repo(), "checkers", "testdata")
	ents, err := os.ReadDir(root)
	if err != nil {
		panic(err)
	}
	var out []string
	for _, e := range ents {
		if !e.IsDir() || strings.HasPrefix(e.Name(), "_") {
			continue
		}
		out = append(out, e.Name())
	}
	sort.Strings(out)
	return out
}

// LoadExamples loads every example directory as its own package.
// Packages with load errors are returned too (caseOrder's examples do not type-check on purpose).
func LoadExamples(fset *token.FileSet, names []string) ([]*packages.Package, error) {
	if names == nil {
		names = ExampleDirs()
	}
	pats := make([]string, len(names))
	for i, n := range names {
		pats[i] = "./testdata/" + n
	}
	return Load(fset, filepath.Join(Repo(), "checkers"), false, pats...)
}

// FileName returns the physical file name of a syntax tree.
func FileName(fset *token.FileSet, pos token.Pos) string {
	f := fset.File(pos)
	if f == nil {
		return ""
	}
	return f.Name()
}

func Must(err error) {
	if err != nil {
		panic(err)
	}
}

func Fatalf(format string, a ...interface{}) {
	fmt.Fprintf(os.Stderr, "vh: "+format+"\n", a...)
	os.Exit(3)
}
