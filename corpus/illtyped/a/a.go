// Package a is well-typed; it is imported by the packages that are not.
package a

var A = 1

func Get() int { return A }
