-------------------------------- MODULE Exprs --------------------------------
(* A fragment of Go boolean expressions, its evaluation, and a transcription  *)
(* of checkers/boolExprSimplify_checker.go (one bottom-up pass, first         *)
(* applicable rewrite per node).                                              *)
EXTENDS Integers, Sequences, FiniteSets, TLC

\* ---- terms -----------------------------------------------------------------
\* arithmetic leaves: integer variables, float variables (values in half units), literals with spelling
IVars == {"x", "y"}     FVars == {"p", "q"}
Lits == { [spell |-> "1",   val |-> 1,  dec |-> 1],       \* dec = what strconv.ParseInt(spell,10,64) yields; -99 = error
          [spell |-> "2",   val |-> 2,  dec |-> 2],
          [spell |-> "010", val |-> 8,  dec |-> 10],
          [spell |-> "011", val |-> 9,  dec |-> 11],
          [spell |-> "0x2", val |-> 2,  dec |-> -99] }
V(n)   == [k |-> "var", n |-> n]
L(l)   == [k |-> "lit", l |-> l]
Inc(a) == [k |-> "add1", a |-> a]        \* a + 1
Dec(a) == [k |-> "sub1", a |-> a]        \* a - 1
Atoms  == { V(n) : n \in IVars \cup FVars } \cup { L(l) : l \in Lits }
Arith  == Atoms \cup { Inc(V(n)) : n \in IVars \cup FVars } \cup { Dec(V(n)) : n \in IVars \cup FVars }
IsFloatA(a) == CASE a.k = "var" -> a.n \in FVars [] a.k = "lit" -> FALSE [] OTHER -> a.a.k = "var" /\ a.a.n \in FVars
\* Go typing: both operands int-typed, or both float-typed (untyped literals adapt)
TypeOK(a, b) == LET fa == IsFloatA(a) fb == IsFloatA(b) la == a.k = "lit" lb == b.k = "lit"
                IN (fa = fb) \/ la \/ lb
CmpOps == {"==", "!=", "<", "<=", ">", ">="}
Cmp(op, a, b) == [k |-> "cmp", op |-> op, a |-> a, b |-> b]
Not(e) == [k |-> "not", e |-> e]
And(e, f) == [k |-> "and", e |-> e, f |-> f]
Or(e, f)  == [k |-> "or",  e |-> e, f |-> f]
B0 == { Cmp(op, a, b) : op \in CmpOps, a \in Arith, b \in Arith }
B0ok == { c \in B0 : TypeOK(c.a, c.b) /\ ~(c.a.k = "lit" /\ c.b.k = "lit") }

\* ---- evaluation -------------------------------------------------------------
NaN == 99
IntDom == {-1, 0, 1, 2, 8, 9, 10, 11}
FltDom == {-2, -1, 0, 1, 2, NaN}          \* half units: 1 means 0.5
ZeroI == [n \in IVars |-> 0]   ZeroF == [n \in FVars |-> 0]
EnvsI == { <<i, ZeroF>> : i \in [IVars -> IntDom] }     \* a term uses int variables or float variables, never both
EnvsF == { <<ZeroI, f>> : f \in [FVars -> FltDom] }
\* numeric value of an arithmetic term in an env; floats in half units (so +1.0 is +2)
ValA(a, env, asFloat) ==
  CASE a.k = "var" -> IF a.n \in IVars THEN env[1][a.n] ELSE env[2][a.n]
    [] a.k = "lit" -> IF asFloat THEN 2 * a.l.val ELSE a.l.val
    [] a.k = "add1" -> LET v == IF a.a.n \in IVars THEN env[1][a.a.n] ELSE env[2][a.a.n]
                       IN IF v = NaN THEN NaN ELSE IF a.a.n \in IVars THEN v + 1 ELSE v + 2
    [] a.k = "sub1" -> LET v == IF a.a.n \in IVars THEN env[1][a.a.n] ELSE env[2][a.a.n]
                       IN IF v = NaN THEN NaN ELSE IF a.a.n \in IVars THEN v - 1 ELSE v - 2
CmpVal(op, u, v) ==
  IF u = NaN \/ v = NaN THEN op = "!="
  ELSE CASE op = "==" -> u = v [] op = "!=" -> u # v [] op = "<" -> u < v
         [] op = "<=" -> u <= v [] op = ">" -> u > v [] op = ">=" -> u >= v
RECURSIVE Eval(_, _)
Eval(e, env) ==
  CASE e.k = "cmp" -> LET f == IsFloatA(e.a) \/ IsFloatA(e.b)
                      IN CmpVal(e.op, ValA(e.a, env, f), ValA(e.b, env, f))
    [] e.k = "not" -> ~Eval(e.e, env)
    [] e.k = "and" -> Eval(e.e, env) /\ Eval(e.f, env)
    [] e.k = "or"  -> Eval(e.e, env) \/ Eval(e.f, env)

\* ---- the checker, transcribed ------------------------------------------------
RECURSIVE HasFloats(_)
HasFloats(e) == CASE e.k = "cmp" -> IsFloatA(e.a) \/ IsFloatA(e.b)
                  [] e.k = "not" -> HasFloats(e.e)
                  [] OTHER -> HasFloats(e.e) \/ HasFloats(e.f)
NegOp(op) == CASE op = "==" -> "!=" [] op = "!=" -> "==" [] op = "<" -> ">=" [] op = ">" -> "<="
               [] op = "<=" -> ">" [] op = ">=" -> "<"
IsInc(a) == a.k = "add1"      IsDec(a) == a.k = "sub1"
\* removeIncDec: replace(lhsOp, rhsOp, repl): lhs has lhsOp-1 (and rhs not the same shape) => drop it; else rhs has rhsOp-1 ...
RemoveIncDec(c) ==
  LET try(lIs(_), rIs(_), repl) ==
        IF lIs(c.a) /\ ~lIs(c.b) THEN Cmp(repl, c.a.a, c.b)
        ELSE IF rIs(c.b) /\ ~rIs(c.a) THEN Cmp(repl, c.a, c.b.a)
        ELSE c
  IN CASE c.op = ">"  -> try(IsInc, IsDec, ">=")
       [] c.op = ">=" -> try(IsDec, IsInc, ">")
       [] c.op = "<"  -> try(IsDec, IsInc, "<=")
       [] c.op = "<=" -> try(IsInc, IsDec, "<")
       [] OTHER -> c
CombineChecks(o) ==       \* x>y || x==y  etc.; operands are pure in this fragment
  IF o.e.k = "cmp" /\ o.f.k = "cmp" /\ o.e.a = o.f.a /\ o.e.b = o.f.b
  THEN CASE (o.e.op = ">" /\ o.f.op = "==") \/ (o.e.op = "==" /\ o.f.op = ">") -> Cmp(">=", o.e.a, o.e.b)
         [] (o.e.op = "<" /\ o.f.op = "==") \/ (o.e.op = "==" /\ o.f.op = "<") -> Cmp("<=", o.e.a, o.e.b)
         [] OTHER -> o
  ELSE o
MkLit(n) == [spell |-> "dec", val |-> n, dec |-> n]
FoldRanges(e, floats, DecimalOnly) ==
  IF floats \/ e.e.k # "cmp" \/ e.f.k # "cmp" THEN e
  ELSE LET l == e.e r == e.f IN
    IF l.a # r.a \/ l.b.k # "lit" \/ r.b.k # "lit" THEN e
    ELSE LET c1 == IF DecimalOnly THEN l.b.l.dec ELSE l.b.l.val
             c2 == IF DecimalOnly THEN r.b.l.dec ELSE r.b.l.val
             d == c2 - c1
             res(op, delta) == Cmp(op, l.a, L(MkLit(c1 + delta)))
         IN IF c1 = -99 \/ c2 = -99 THEN e
            ELSE IF e.k = "and" THEN
              CASE l.op = ">"  /\ r.op = "<"  /\ d = 2 -> res("==", 1)
                [] l.op = ">=" /\ r.op = "<"  /\ d = 1 -> res("==", 0)
                [] l.op = ">"  /\ r.op = "<=" /\ d = 1 -> res("==", 1)
                [] l.op = ">=" /\ r.op = "<=" /\ d = 0 -> res("==", 0)
                [] OTHER -> e
            ELSE
              CASE l.op = "<"  /\ r.op = ">"  /\ d = 0 -> res("!=", 0)
                [] l.op = "<=" /\ r.op = ">"  /\ d = 1 -> res("!=", 1)
                [] l.op = "<"  /\ r.op = ">=" /\ d = 1 -> res("!=", 0)
                [] l.op = "<=" /\ r.op = ">=" /\ d = 2 -> res("!=", 1)
                [] OTHER -> e
\* one post-order pass; at each node the first rewrite that applies
RECURSIVE Pass(_, _, _, _)
Pass(e, floats, IncDecFloatGuard, DecimalOnly) ==
  CASE e.k = "cmp" -> IF IncDecFloatGuard /\ floats THEN e ELSE RemoveIncDec(e)
    [] e.k = "not" -> LET s == Pass(e.e, floats, IncDecFloatGuard, DecimalOnly) IN
                        IF s.k = "not" THEN s.e                                   \* doubleNegation
                        ELSE IF s.k = "cmp" /\ ~floats THEN Cmp(NegOp(s.op), s.a, s.b)  \* invertComparison
                        ELSE Not(s)
    [] OTHER -> LET n == [e EXCEPT !.e = Pass(e.e, floats, IncDecFloatGuard, DecimalOnly),
                                   !.f = Pass(e.f, floats, IncDecFloatGuard, DecimalOnly)]
                    c == IF n.k = "or" THEN CombineChecks(n) ELSE n
                IN IF c # n THEN c ELSE FoldRanges(n, floats, DecimalOnly)
Simplify(e, g, d) == Pass(e, HasFloats(e), g, d)

CONSTANTS IncDecFloatGuard, DecimalOnly,    \* the pinned code: FALSE, TRUE
          Depth                              \* 1: comparisons and negations; 2: + and/or of two comparisons
VARIABLES e, pred, ok
\* depth-2 terms: comparisons, negations, and/or of two comparisons over the same left operand
B1 == B0ok \cup { Not(c) : c \in B0ok } \cup { Not(Not(c)) : c \in B0ok }
Pairs == { <<c, d>> \in B0ok \X B0ok : c.a = d.a /\ c.a.k = "var" }
B2 == B1 \cup { And(pr[1], pr[2]) : pr \in Pairs } \cup { Or(pr[1], pr[2]) : pr \in Pairs }
Preserves0(t) == \A env \in (IF HasFloats(t) THEN EnvsF ELSE EnvsI) : Eval(Simplify(t, IncDecFloatGuard, DecimalOnly), env) = Eval(t, env)
\* depth 1 also contains the and/or pairs whose right operands are both literals (the range-folding candidates)
LitPairs == { pr \in Pairs : pr[1].b.k = "lit" /\ pr[2].b.k = "lit" }
B1L == B1 \cup { And(pr[1], pr[2]) : pr \in LitPairs } \cup { Or(pr[1], pr[2]) : pr \in LitPairs }
Terms == IF Depth = 2 THEN B2 ELSE B1L
Init == e \in Terms /\ pred = Simplify(e, IncDecFloatGuard, DecimalOnly) /\ ok = Preserves0(e)
Next == UNCHANGED <<e, pred, ok>>
Spec == Init /\ [][Next]_<<e, pred, ok>>
Preserves == ok
=============================================================================
