"""C03 - results do not depend on what was analysed before.

Spec: Lifecycle.tla (HistIndep, BufEmptyAtBegin, InfoIdentityStable), exhaustive for small constants
with what-if refutations. Binding: (i) behaviours of LifecycleHist exported by TLC simulation are
replayed on a real long-lived checker set, (ii) the (g -> f) pair sweep over all example files,
(iii) every recorded execution is validated by TraceLifecycle.tla, with the result of a fresh
instance (built in the other legal construction order) as reference. (iv) the real binary on
multi-package workspaces with the package arguments permuted / split / given as ./...
"""
import json
import os
import shutil
import subprocess

import vlib
from props import lifecycle_common as lc
from props import gen_common

C03_KINDS = {"ResultDiffers", "BufNotEmpty", "RetNotBuf", "InfoIdentity", "StaleContext", "SkipFlagLeft", "Panic", "Timeout", "ProtocolSkipped"}


def run(ctx):
    thorough = ctx.tier == "thorough"
    design = lc.design(ctx, ["noResetBuf", "noResetScratch", "noInPlace", "noRebuildImports"], coverage=thorough)
    hists = lc.export_histories(ctx, 100 if thorough else 16, 40, ctx.seed)
    hfile = ctx.path("hists.json")
    json.dump(hists, open(hfile, "w"))

    gdir = gen_common.generate(ctx, "c03")
    args = ["-corpus", "examples,dir:" + gdir, "-mode", "hist,pairs", "-hist", hfile, "-oblig", "c03", "-cat", "8"]
    if not thorough:
        args += ["-maxg", "24"]
    res, trace = lc.run_harness(ctx, "c03", args)
    events, states = lc.judge(ctx, res, trace)

    # anti-vacuity: a corrupted result digest and a non-empty buffer must be rejected
    lc.canary(ctx, trace, lambda e: dict(e, got="deadbeef") if e["ev"] == "Walked" and e["got"] != "" else None)
    lc.canary(ctx, trace, lambda e: dict(e, bufLen=2) if e["ev"] == "CheckBegin" else None)

    # the adversarial packages as the front-ends visit them: every file of a package in order by one long-lived set
    # (same-named local types, import-less files after files with imports, ...), forwards and in shuffled orders
    args_adv = ["-corpus", "dir:" + gdir, "-mode", "cli,order", "-oblig", "c03", "-others", "6"]
    res_adv, trace_adv = lc.run_harness(ctx, "c03_adv", args_adv)
    e2, s2 = lc.judge(ctx, res_adv, trace_adv)
    events += e2
    states += s2
    # user rules whose filters look at the package of the analysed file, by one long-lived ruleguard checker over several packages
    args_rg = ["-corpus", "dir:" + gdir, "-mode", "cli,order", "-oblig", "c03", "-others", "2", "-checkers", "ruleguard,importShadow,dupImport",
               "-rgrules", os.path.join(vlib.VERIF, "corpus", "rules", "advpkg.go")]
    res_rg, trace_rg = lc.run_harness(ctx, "c03_rg", args_rg, cwd=vlib.REPO)
    if res_rg["warnings"] == 0:
        raise vlib.Infra("the package-dependent user rules produced no diagnostics on the adversarial corpus")
    e3, s3 = lc.judge(ctx, res_rg, trace_rg)
    events += e3
    states += s3
    res_adv["nonconf"] = res_adv["nonconf"] + [dict(n, via="user rules") for n in res_rg["nonconf"]]
    for n in res_adv["nonconf"]:
        if n["kind"] in C03_KINDS:
            ctx.fail("%s %s" % (n["kind"], n["checker"]),
                     "%s: checker %s on %s after %s: %s" % (n["kind"], n["checker"], n["file"], n.get("prev"), " | ".join(n["detail"][:12])),
                     {"cmd": "vh lifecycle " + " ".join(args_adv), "nonconf": n})
    for n in res["nonconf"]:
        if n["kind"] in C03_KINDS:
            ctx.fail("%s %s" % (n["kind"], n["checker"]),
                     "%s: checker %s on %s after %s: %s" % (n["kind"], n["checker"], n["file"], n["prev"], " | ".join(n["detail"][:12])),
                     {"cmd": "vh lifecycle " + " ".join(args), "nonconf": n})

    cli = cli_order(ctx, thorough)

    st, tr = vlib.tlc_states_total(ctx)
    cov = {
        "states": st, "transitions": tr,
        "traces_validated_against_impl": len(hists) + 1,
        "events_validated": events,
        "checks_compared_with_fresh_instance": res["checks"] + res_adv["checks"],
        "checks_with_warnings": res["nontrivial_checks"],
        "histories_from_tlc": len(hists),
        "checkers": res["checkers"], "files": res["units"],
        "design": design, "cli_order": cli,
        "exhaustive": False,
        "samples": [{"history_of_abstract_files": hists[0]}, {"history": hists[-1]}] + res["samples"][:3],
    }
    return ctx.finish("model_checking", cov, [
        "reference = a fresh instance constructed after SetPackageInfo on a private context, same code",
        "example files of the repository are the catalogue; histories are TLC simulation behaviours of LifecycleHist",
    ])


def cli_order(ctx, thorough):
    """The real binary: union of diagnostics must not depend on order / grouping of package arguments."""
    binp = ctx.build_repo_bin("cmd/go-critic")
    ws = make_workspace(ctx, 6 if thorough else 4)
    pk = ws["pkgs"]
    orders = [pk, list(reversed(pk)), ["./..."]]
    rng = ctx.rng
    for _ in range(3 if thorough else 1):
        p = pk[:]
        rng.shuffle(p)
        orders.append(p)
    base = None
    runs = 0
    for o in orders:
        lines = run_cli(binp, ws["dir"], ["-enableAll"] + o)
        runs += 1
        if base is None:
            base = lines
            if not lines:
                raise vlib.Infra("CLI produced no diagnostics on the order workspace")
        elif lines != base:
            diff = sorted(set(lines) ^ set(base))[:10]
            ctx.fail("CLIOrder", "diagnostics differ for package order %s vs %s: %s" % (o, orders[0], diff),
                     {"workspace": "generated from example files", "args": o, "diff": diff})
    # split into several invocations: union must equal the single run
    union = []
    for p in pk:
        union += run_cli(binp, ws["dir"], ["-enableAll", p])
        runs += 1
    if sorted(union) != base:
        diff = sorted(set(union) ^ set(base))[:10]
        ctx.fail("CLISplit", "one invocation per package differs from a single invocation: %s" % diff, {"diff": diff})
    return {"invocations": runs, "lines": len(base or []), "packages": len(pk)}


def make_workspace(ctx, npk):
    """A temp module whose packages are example files re-packaged under ordinary package names."""
    d = ctx.path("ws_order", "go.mod")
    d = os.path.dirname(d)
    with open(os.path.join(d, "go.mod"), "w") as f:
        f.write("module example.com/ws\n\ngo 1.21\n")
    names = ["dupCase", "ifElseChain", "typeSwitchVar", "mapKey", "elseif", "unlambda", "assignOp", "badCond", "sloppyLen", "captLocal"]
    ctx.rng.shuffle(names)
    pkgs = []
    for i, n in enumerate(names[:npk]):
        pd = os.path.join(d, "p%d" % i)
        os.makedirs(pd, exist_ok=True)
        for fn in ("positive_tests.go", "negative_tests.go"):
            src = os.path.join(vlib.REPO, "checkers", "testdata", n, fn)
            if not os.path.exists(src):
                continue
            txt = open(src).read().replace("package checker_test", "package p%d" % i, 1)
            with open(os.path.join(pd, fn.replace("_tests", "")), "w") as f:
                f.write(txt)
        pkgs.append("./p%d" % i)
    return {"dir": d, "pkgs": pkgs}


def run_cli(binp, cwd, args, env=None, want_rc=None):
    r = subprocess.run([binp, "check"] + args, cwd=cwd, capture_output=True, text=True, env=vlib.goenv(env), timeout=600)
    if "panic:" in r.stderr or "goroutine " in r.stderr:
        raise vlib.Infra("CLI crashed on the order workspace: %s" % r.stderr[-2000:])
    lines = sorted(l for l in r.stderr.splitlines() if l.strip())
    return lines
