// Package dupnames does not type-check: several imports share one local name (x, y, z redeclared).
// The check command analyses such packages all the same; go/types records an object for every import.
package dupnames

import (
	x "example.com/illtyped/a"
	x "example.com/illtyped/b"
	y "fmt"
	y "os"
	z "example.com/illtyped/a"
	z "strings"
	z "example.com/illtyped/b"
)

func F(z int) int {
	x := 1
	y := x + 2
	if y > 2 {
		x := y
		return x
	}
	return x + z
}

func G() (x, y int) {
	var z = 3
	const w = 4
	return z, w
}
