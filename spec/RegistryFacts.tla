--------------------------- MODULE RegistryFacts ---------------------------
(***************************************************************************)
(* C17 as invariants over facts extracted from the current tree (the       *)
(* constants are written by the check from: checkers/rules/rules.go        *)
(* (groups), the live registry after both registration phases, the `doc`   *)
(* sub-command, docs/overview.md, and the digests of the shipped and of    *)
(* the freshly compiled rule data / rendered overview).  One state: this   *)
(* is data consistency, the transitions Precompile and RenderDocs are      *)
(* replayed on the real generators by the check.                           *)
(***************************************************************************)
EXTENDS Naturals, FiniteSets, TLC
CONSTANTS GroupFacts,      \* set of <<name, tags (set), summary, before, after>> from rules.go
          EmbeddedFacts,   \* the same tuples for the registered checkers with EmbeddedRuleguard = TRUE
          RegistryNames, DocCmdNames, OverviewNames,
          DefaultMarked,   \* names with the "enabled by default" mark in docs/overview.md
          DocDefaultNames, \* names selected by the documented default rule (computed from the registry tags)
          ListedBeforeInit, ListedAfterInit,   \* names GetCheckersInfo lists before / after InitEmbeddedRules (process without the analyzer)
          GroupNames,      \* names of the rule groups of rules.go
          CliDefaultNames, \* the default -enable list of the built go-critic binary
          ReferenceBehaviour, \* set of <<name, digest>>: what the rule-group checker constructed alone says about the example files of all groups
          InstanceBehaviour,  \* the same for every instance constructed while other goroutines construct rule-group checkers too
          DegradedListings, \* listings printed by `doc` runs that exited 0 in an environment where the embedded rules cannot load
          ShippedIR, CompiledIR, ShippedDocs, RenderedDocs   \* digests
VARIABLE x
Init == x = 0
Next == UNCHANGED x
Spec == Init /\ [][Next]_x
Shipped == ShippedIR = CompiledIR
OneCheckerPerGroup == GroupFacts = EmbeddedFacts /\ Cardinality({ f[1] : f \in GroupFacts }) = Cardinality(GroupFacts)
DocsExact == OverviewNames = RegistryNames /\ DocCmdNames = RegistryNames
\* the shipped page is byte for byte what the generator renders today (reported, not required: the property is about the listing)
DocsFresh == ShippedDocs = RenderedDocs
MarksAgree == DefaultMarked = DocDefaultNames /\ DefaultMarked = CliDefaultNames
\* the listing follows the registrations made so far (no stale snapshot)
ListingFollowsRegistration == ListedAfterInit = ListedBeforeInit \cup GroupNames /\ ListedBeforeInit \cap GroupNames = {}
\* a listing that succeeds is the whole registry (a binary that cannot load its rule groups must fail, not list a part)
ListingAllOrNothing == \A l \in DegradedListings : l = RegistryNames
\* a checker named after a group runs that group's rules (and only those) however its construction was scheduled
CheckerRunsItsGroup == InstanceBehaviour \subseteq ReferenceBehaviour
=============================================================================
