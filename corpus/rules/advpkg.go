//go:build ignore

package gorules

import "github.com/quasilyte/go-ruleguard/dsl"

// Rules whose filters depend on the package of the analysed file (adversarial corpus packages).
func advPkg(m dsl.Matcher) {
	m.Match(`func $f($*_) $*_ { $*_ }`).
		Where(m.File().PkgPath.Matches(`/(localtypes|twofiles|imports)$`)).
		Report(`advpkg: function $f in a selected package`)
	m.Match(`for $_, $x := range $xs { $*_ }`).
		Where(!m.File().PkgPath.Matches(`/(localtypes|asmstub)$`)).
		Report(`advpkg: value range over $xs outside the selected packages`)
	m.Match(`len($x) >= 0`).
		Where(m.File().PkgPath.Matches(`/onlyclause$`) && m["x"].Object.IsGlobal()).
		Report(`advpkg: global length test`)
}
