SPECIFICATION Spec
CONSTANTS
  MaxGap = 2
  GapFormsOfferFix = FALSE
INVARIANTS OutsideUnchanged NoUnrelatedDeleted OneStatementReplacesRun
