// Package localtypes: function-local types with the same name and different layouts in different
// functions and files (they print alike: example.com/adv/localtypes.row).
package localtypes

func bigRows() int {
	type row struct{ payload [256]byte }
	xs := make([]row, 2)
	n := 0
	for _, r := range xs {
		n += int(r.payload[0])
	}
	var arr [4]row
	for _, r := range arr {
		n += int(r.payload[1])
	}
	return n
}

func smallPairs() int {
	type pair struct{ a, b int8 }
	ps := []pair{{1, 2}}
	n := 0
	for _, p := range ps {
		n += int(p.a + p.b)
	}
	return n
}
