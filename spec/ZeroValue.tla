------------------------------ MODULE ZeroValue ------------------------------
(***************************************************************************)
(* Zero-value synthesis for `*new(T)` (checkers/newDeref_checker.go,       *)
(* checkers/internal/lintutil/zero_value.go), transcribed over a universe  *)
(* of type terms, and the claim of C09 that the replacement keeps the type *)
(* of the replaced expression.                                             *)
(* A suggestion is a bare literal only when its default type is T itself;  *)
(* otherwise a conversion T(lit), T(nil) or a composite literal T{}.       *)
(* Every type term is an initial state; the predicted suggestion is        *)
(* exported and compared with the real checker's, and go/types judges the  *)
(* real one.                                                               *)
(***************************************************************************)
EXTENDS Naturals, Sequences, FiniteSets, TLC
CONSTANTS ParenFuncTail,        \* a converted type that ends in a func type is parenthesised: ([]func())(nil)
          ComplexIsDefault,     \* what-if: complex128 listed among the default literal types (the literal is the integer 0)
          NamedIsDefault        \* what-if: the default-type test looks at the underlying type

\* basic types: name |-> kind
Basic == {"bool", "int", "int32", "rune", "uint8", "uintptr", "float32", "float64", "complex64", "complex128", "string"}
Kind(b) == CASE b = "bool" -> "boolean" [] b \in {"int", "int32", "rune", "uint8", "uintptr"} -> "integer"
             [] b \in {"float32", "float64"} -> "float" [] b \in {"complex64", "complex128"} -> "complex" [] OTHER -> "string"
\* named types declared by the rendered package: name |-> underlying
Named == {"MyInt", "MyStr", "MyFloat", "MyBool", "MyCplx", "S", "E", "MyPtr", "MySlice", "MyFunc"}
Under(n) == CASE n = "MyInt" -> [c |-> "basic", b |-> "int"] [] n = "MyStr" -> [c |-> "basic", b |-> "string"]
              [] n = "MyFloat" -> [c |-> "basic", b |-> "float64"] [] n = "MyBool" -> [c |-> "basic", b |-> "bool"]
              [] n = "MyCplx" -> [c |-> "basic", b |-> "complex128"]
              [] n = "S" -> [c |-> "struct"] [] n = "E" -> [c |-> "iface"] [] n = "MyPtr" -> [c |-> "ptr"]
              [] n = "MySlice" -> [c |-> "slice"] [] OTHER -> [c |-> "func"]
\* type terms: basic, named, or a constructor applied to an element type (printed by the renderer)
Leaf == { [c |-> "basic", b |-> b] : b \in Basic } \cup { [c |-> "named", n |-> n] : n \in Named } \cup {[c |-> "unsafeptr"]}
Cons == {"ptr", "slice", "array", "map", "chan", "rchan", "func", "struct", "iface"}
Elems == { [c |-> "basic", b |-> "int"], [c |-> "named", n |-> "S"], [c |-> "elemptr"], [c |-> "elemfunc"] }
Terms == Leaf \cup { [c |-> k, e |-> el] : k \in Cons, el \in Elems }

\* the shape go/types reports for the underlying type
Shape(t) == CASE t.c = "basic" -> [c |-> "basic", b |-> t.b]
              [] t.c = "named" -> Under(t.n)
              [] OTHER -> [c |-> t.c]
IsBasicItself(t) == t.c = "basic"                 \* typ.(*types.Basic) succeeds only for unnamed basic types
DefaultLit(t) ==
  LET b == IF t.c = "basic" THEN t.b ELSE IF NamedIsDefault /\ Shape(t).c = "basic" THEN Shape(t).b ELSE "none" IN
  b \in {"bool", "int", "float64", "string"} \cup (IF ComplexIsDefault THEN {"complex128"} ELSE {})
Lit(kind) == CASE kind = "integer" -> "0" [] kind = "float" -> "0.0" [] kind = "string" -> "\"\"" [] kind = "boolean" -> "false" [] OTHER -> "0"
\* []func()(nil) is read as a slice of `func() (nil)`: the type must be parenthesised (go/printer does it for *T only)
EndsWithFunc(t) == t.c \in {"slice", "array", "map", "chan", "rchan"} /\ t.e.c = "elemfunc"
\* ZeroValueOf: [form, lit, paren]
Zero(t) == LET s == Shape(t) IN
  CASE s.c = "basic" -> IF DefaultLit(t) THEN [form |-> "lit", lit |-> Lit(Kind(s.b)), paren |-> FALSE]
                                         ELSE [form |-> "conv", lit |-> Lit(Kind(s.b)), paren |-> FALSE]
    [] s.c \in {"slice", "map", "ptr", "iface"} -> [form |-> "conv", lit |-> "nil", paren |-> t.c = "ptr" \/ (ParenFuncTail /\ EndsWithFunc(t))]
    [] s.c \in {"array", "struct"} -> [form |-> "comp", lit |-> "", paren |-> FALSE]
    [] OTHER -> [form |-> "none", lit |-> "", paren |-> FALSE]             \* chan, func, unsafe.Pointer: no suggestion
\* the default type of a bare literal
TypeOfLit(l) == CASE l = "0" -> "int" [] l = "0.0" -> "float64" [] l = "\"\"" -> "string" [] OTHER -> "bool"

VARIABLES t, z
Init == t \in Terms /\ z = Zero(t)
Next == UNCHANGED <<t, z>>
Spec == Init /\ [][Next]_<<t, z>>
\* the replacement has type T: conversions and composite literals by construction, a bare literal only if its default type is T
KeepsType == z.form = "lit" => (t.c = "basic" /\ t.b = TypeOfLit(z.lit))
\* the printed conversion is read back as a conversion of that type
ConvUnambiguous == (z.form = "conv" /\ (t.c = "ptr" \/ EndsWithFunc(t))) => z.paren
=============================================================================
