// Command vhpre observes the registry before and after the second registration phase, in a process that does NOT
// link the analyzer package (which runs the second phase in its init): what GetCheckersInfo lists must follow
// the registrations made so far.
package main

import (
	"encoding/json"
	"os"

	"github.com/go-critic/go-critic/checkers"
	"github.com/go-critic/go-critic/linter"
)

func names() []string {
	var out []string
	for _, in := range linter.GetCheckersInfo() {
		out = append(out, in.Name)
	}
	return out
}

func main() {
	pre := names()
	if err := checkers.InitEmbeddedRules(); err != nil {
		panic(err)
	}
	post := names()
	// a second call must neither fail nor register anything twice
	err2 := checkers.InitEmbeddedRules()
	post2 := names()
	e := ""
	if err2 != nil {
		e = err2.Error()
	}
	json.NewEncoder(os.Stdout).Encode(map[string]interface{}{"pre": pre, "post": post, "post2": post2, "err2": e})
}
