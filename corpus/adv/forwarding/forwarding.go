// Package forwarding: calls whose arguments are the forwarded results of another call (f(g())),
// bare returns with named results, and cyclic embedded pointer structs. All legal Go.
package forwarding

import (
	"database/sql"
	"flag"
	"sort"
	"strings"
)

func boolVarArgs() (*bool, string, bool, string)       { return new(bool), "v", false, "usage" }
func stringVarArgs() (*string, string, string, string) { return new(string), "s", "", "usage" }
func durationArgs() (string, string, string)           { return "d", "1s", "usage" }

func flags() {
	flag.BoolVar(boolVarArgs())
	flag.StringVar(stringVarArgs())
	fs := flag.NewFlagSet("x", flag.ContinueOnError)
	fs.BoolVar(boolVarArgs())
	_ = fs.String(durationArgs())
}

func lessNamed(xs []int) {
	sort.Slice(xs, func(i, j int) (less bool) {
		less = xs[i] < xs[j]
		return
	})
	sort.Slice(xs, func(i, j int) (less bool) { return })
	sort.SliceStable(xs, func(i, j int) (less bool) { return })
}

type Option func(*int)

func withA() Option                  { return func(*int) {} }
func pair() (Option, Option)         { return withA(), withA() }
func triple() (int, Option, Option)  { return 1, withA(), withA() }
func New(opts ...Option) int         { return len(opts) }
func NewN(n int, opts ...Option) int { return n + len(opts) }

func quad() (int, int, Option, Option)   { return 1, 2, withA(), withA() }
func NewAB(a, b int, opts ...Option) int { return a + b + len(opts) }

func options() {
	_ = NewAB(quad())
	_ = New(pair())
	_ = NewN(triple())
	_ = New(withA(), withA())
	all := []Option{withA(), withA()}
	_ = New(all...)
}

// cyclic embedding through pointers
type nodeA struct{ *nodeB }
type nodeB struct{ *nodeA }

func (nodeB) Exec(q string, args ...interface{}) (sql.Result, error) { return nil, nil }

type cyc struct {
	*cyc
	name string
}

func queries(db *sql.DB, a nodeA, c cyc) {
	_, _ = db.Exec("SELECT 1")
	_, _ = a.Exec("SELECT 1")
	_ = c.name
	_, _ = a.nodeB.Exec("x")
}

// Rows is a Rows-like result; querier embeds a pointer to itself and has no Exec method.
type Rows struct{}

type querier struct {
	*querier
	n int
}

func (querier) Query(q string) (*Rows, error) { return nil, nil }

type ring1 struct{ *ring2 }
type ring2 struct{ *ring1 }

func (ring1) Query(q string) (*Rows, error) { return nil, nil }

func ignoredRows(q querier, r ring1) {
	_, _ = q.Query("SELECT 1")
	_, err := r.Query("SELECT 2")
	_ = err
}

func splitArgs() (string, string)             { return "a,b", "," }
func joinArgs() ([]string, string)            { return []string{"a"}, "" }
func replArgs() (string, string, string, int) { return "a", "a", "b", -1 }

func stringsCalls() {
	_ = strings.Split(splitArgs())
	_ = strings.Join(joinArgs())
	_ = strings.Replace(replArgs())
	_ = strings.Index(splitArgs()) >= 0
	_ = strings.Compare(splitArgs()) == 0
	_ = strings.EqualFold(splitArgs())
	_ = strings.HasPrefix(splitArgs())
}

func appendArgs() ([]int, int) { return nil, 1 }

func builtins() []int {
	xs := append(appendArgs())
	xs = append(xs, 1)
	return xs
}
