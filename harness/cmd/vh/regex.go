package main

import (
	"encoding/json"
	"flag"
	"fmt"
	"go/token"
	"os"
	"path/filepath"
	"reflect"
	"regexp"
	"strconv"
	"strings"
	"sync"

	"verifharness/hx"

	"github.com/go-critic/go-critic/linter"
)

func init() { commands["regex"] = regexCmd }

type rxCase struct {
	ID       int      `json:"id"`
	Pat      string   `json:"pat"`
	Alpha    []string `json:"alpha"`
	Subjects []string `json:"subjects,omitempty"` // when given, Find results for them are returned (matcher validation)
	Ctor     string   `json:"ctor,omitempty"`     // constructor at the call site: MustCompile (default) or MustCompilePOSIX
	Wit      []string `json:"wit,omitempty"`      // a shortest match (one string per symbol); it and its one-symbol variations are subjects too
}

type rxOut struct {
	ID       int              `json:"id"`
	Pat      string           `json:"pat"`
	Valid    bool             `json:"valid"`
	NumCap   int              `json:"numcap"`
	Sugg     string           `json:"sugg,omitempty"`
	Verdict  string           `json:"verdict,omitempty"` // "", nocompile, capcount, names, match
	Witness  string           `json:"witness,omitempty"`
	Orig     []int            `json:"orig,omitempty"`
	Got      []int            `json:"got,omitempty"`
	Finds    map[string][]int `json:"finds,omitempty"`
	ConcDiff []string         `json:"concdiff,omitempty"` // suggestions of concurrent runs that differ from the sequential one
}

// regexCmd places every pattern in regexp.MustCompile("...") in generated files, runs the real regexpSimplify
// checker (a fresh instance per file, sequentially and then with all files concurrently), and judges every
// suggestion with Go's regexp: compilation, number and names of capture groups, FindStringSubmatchIndex on all
// subjects up to -maxlen over the pattern's own alphabet.
func regexCmd(args []string) {
	fs := flag.NewFlagSet("regex", flag.ExitOnError)
	in := fs.String("in", "", "cases JSON")
	out := fs.String("out", "", "output JSON")
	work := fs.String("work", "", "scratch directory for the generated module")
	maxlen := fs.Int("maxlen", 4, "max subject length")
	perFile := fs.Int("per-file", 400, "patterns per generated file")
	conc := fs.Int("conc", 0, "number of concurrent repetitions (all files at once, fresh checker per file)")
	fs.Parse(args)
	var cases []rxCase
	b, err := os.ReadFile(*in)
	hx.Must(err)
	hx.Must(json.Unmarshal(b, &cases))
	hx.Init()
	hx.Must(os.MkdirAll(filepath.Join(*work, "rx"), 0o755))
	hx.Must(os.WriteFile(filepath.Join(*work, "go.mod"), []byte("module example.com/rxgen\n\ngo 1.21\n"), 0o644))
	type loc struct {
		file string
		line int
	}
	byLoc := map[loc]int{}
	nfiles := 0
	for i := 0; i < len(cases); i += *perFile {
		var sb strings.Builder
		sb.WriteString("package rx\n\nimport \"regexp\"\n\nvar (\n")
		line := 6
		name := filepath.Join(*work, "rx", fmt.Sprintf("f%04d.go", nfiles))
		for j := i; j < i+*perFile && j < len(cases); j++ {
			ctor := cases[j].Ctor
			if ctor == "" {
				ctor = "MustCompile"
			}
			fmt.Fprintf(&sb, "\t_ = regexp.%s(%s)\n", ctor, strconv.Quote(cases[j].Pat))
			byLoc[loc{name, line}] = j
			line++
		}
		sb.WriteString(")\n")
		hx.Must(os.WriteFile(name, []byte(sb.String()), 0o644))
		nfiles++
	}
	fset := token.NewFileSet()
	pkgs, err := hx.Load(fset, *work, false, "./...")
	hx.Must(err)
	var info *linter.CheckerInfo
	for _, in := range hx.Infos() {
		if in.Name == "regexpSimplify" {
			info = in
		}
	}
	if info == nil {
		hx.Fatalf("regexpSimplify is not registered")
	}
	units := hx.Units(fset, pkgs)
	if len(units) != nfiles {
		hx.Fatalf("loaded %d files, generated %d", len(units), nfiles)
	}
	parse := func(u *hx.Unit, ws []linter.Warning, sink func(idx int, sugg string)) {
		for _, w := range ws {
			p := fset.Position(w.Pos)
			idx, ok := byLoc[loc{u.Phys, p.Line}]
			if !ok {
				hx.Fatalf("diagnostic at unknown place %v: %s", p, w.Text)
			}
			pre := "can re-write `" + cases[idx].Pat + "` as `"
			if !strings.HasPrefix(w.Text, pre) || !strings.HasSuffix(w.Text, "`") {
				hx.Fatalf("unexpected diagnostic text %q for %q", w.Text, cases[idx].Pat)
			}
			sink(idx, w.Text[len(pre):len(w.Text)-1])
		}
	}
	res := make([]rxOut, len(cases))
	for i, c := range cases {
		res[i] = rxOut{ID: c.ID, Pat: c.Pat}
	}
	for _, u := range units {
		_, ws, err := hx.Fresh(fset, info, u, "")
		hx.Must(err)
		parse(u, ws, func(idx int, s string) { res[idx].Sugg = s })
	}
	// concurrent repetitions: what a go/analysis driver or the CLI does with several files at once
	var mu sync.Mutex
	var concErrs []string
	concRuns := 0
	for r := 0; r < *conc; r++ {
		var wg sync.WaitGroup
		for _, u := range units {
			wg.Add(1)
			go func(u *hx.Unit) {
				defer wg.Done()
				_, ws, err := hx.Fresh(fset, info, u, "")
				if err != nil {
					mu.Lock()
					concErrs = append(concErrs, u.Base+": "+err.Error())
					mu.Unlock()
					return
				}
				seen := map[int]bool{}
				mu.Lock()
				defer mu.Unlock()
				parse(u, ws, func(idx int, s string) {
					seen[idx] = true
					if s != res[idx].Sugg {
						res[idx].ConcDiff = append(res[idx].ConcDiff, s)
					}
				})
				for l, idx := range byLoc {
					if l.file == u.Phys && res[idx].Sugg != "" && !seen[idx] {
						res[idx].ConcDiff = append(res[idx].ConcDiff, "")
					}
				}
			}(u)
		}
		wg.Wait()
		concRuns++
	}
	// verdicts
	var wg sync.WaitGroup
	sem := make(chan struct{}, 16)
	for i := range cases {
		wg.Add(1)
		sem <- struct{}{}
		go func(i int) {
			defer wg.Done()
			defer func() { <-sem }()
			judge(&cases[i], &res[i], *maxlen)
		}(i)
	}
	wg.Wait()
	ob, _ := json.Marshal(map[string]interface{}{"results": res, "files": nfiles, "conc_runs": concRuns, "conc_errors": concErrs})
	hx.Must(os.WriteFile(*out, ob, 0o644))
}

func rxSubjects(alpha []string, maxlen int) []string {
	out := []string{""}
	prev := []string{""}
	for n := 1; n <= maxlen; n++ {
		var cur []string
		for _, p := range prev {
			for _, a := range alpha {
				cur = append(cur, p+a)
			}
		}
		out = append(out, cur...)
		prev = cur
	}
	return out
}

func judge(c *rxCase, r *rxOut, maxlen int) {
	compile := regexp.Compile
	if c.Ctor == "MustCompilePOSIX" {
		compile = regexp.CompilePOSIX // the suggestion is judged with the constructor of its call site
	}
	a, err := compile(c.Pat)
	if err != nil {
		return
	}
	r.Valid = true
	r.NumCap = a.NumSubexp()
	if len(c.Subjects) > 0 {
		r.Finds = map[string][]int{}
		for _, s := range c.Subjects {
			r.Finds[s] = a.FindStringSubmatchIndex(s)
		}
	}
	suggs := append([]string{}, r.ConcDiff...)
	if r.Sugg != "" {
		suggs = append([]string{r.Sugg}, suggs...)
	}
	ml := maxlen
	if len(c.Alpha) > 4 {
		ml = maxlen - 1
	}
	subj := rxSubjects(c.Alpha, ml)
	if len(c.Wit) > 0 {
		w := strings.Join(c.Wit, "")
		subj = append(subj, w)
		for _, a := range c.Alpha {
			subj = append(subj, w+a, a+w)
			for i := range c.Wit {
				v := append([]string{}, c.Wit...)
				v[i] = a
				subj = append(subj, strings.Join(v, ""))
			}
		}
		for i := range c.Wit {
			subj = append(subj, strings.Join(append(append([]string{}, c.Wit[:i]...), c.Wit[i+1:]...), ""))
		}
	}
	for _, sg := range suggs {
		if sg == "" {
			continue
		}
		b, err := compile(sg)
		switch {
		case err != nil:
			r.Verdict, r.Witness = "nocompile", err.Error()
		case a.NumSubexp() != b.NumSubexp():
			r.Verdict, r.Witness = "capcount", fmt.Sprintf("%d -> %d", a.NumSubexp(), b.NumSubexp())
		case !reflect.DeepEqual(a.SubexpNames(), b.SubexpNames()):
			r.Verdict, r.Witness = "names", fmt.Sprintf("%q -> %q", a.SubexpNames(), b.SubexpNames())
		default:
			for _, s := range subj {
				x, y := a.FindStringSubmatchIndex(s), b.FindStringSubmatchIndex(s)
				if !reflect.DeepEqual(x, y) {
					r.Verdict, r.Witness, r.Orig, r.Got = "match", s, x, y
					break
				}
			}
		}
		if r.Verdict != "" {
			if sg != r.Sugg {
				r.Verdict += " (concurrent run: `" + sg + "`)"
			}
			return
		}
	}
}
