package main

import (
	"encoding/json"
	"flag"
	"fmt"
	"go/ast"
	"go/token"
	"go/types"
	"os"
	"path/filepath"
	"regexp"
	"strconv"
	"strings"

	"github.com/go-critic/go-critic/linter"
	"verifharness/hx"
)

func init() { commands["params"] = paramsCmd }

func rep(s string, n int, sep string) string {
	xs := make([]string, n)
	for i := range xs {
		xs[i] = s
	}
	return strings.Join(xs, sep)
}

// construct renders a program whose measure for the given checker is exactly m.
func construct(checker string, m int) string {
	switch checker {
	case "hugeParam":
		return fmt.Sprintf("func f%d(x [%d]byte) { _ = x }\n", m, m)
	case "rangeValCopy":
		return fmt.Sprintf("func f%d(xs [][%d]byte) int {\n\tn := 0\n\tfor _, x := range xs {\n\t\tn += len(x)\n\t}\n\treturn n\n}\n", m, m)
	case "rangeExprCopy":
		return fmt.Sprintf("func f%d() int {\n\tvar xs [%d]byte\n\tn := 0\n\tfor _, x := range xs {\n\t\tn += int(x)\n\t}\n\treturn n\n}\n", m, m)
	case "tooManyResultsChecker":
		return fmt.Sprintf("func f%d() (%s) {\n\treturn %s\n}\n", m, rep("int", m, ", "), rep("0", m, ", "))
	case "nestingReduce":
		return fmt.Sprintf("func f%d(xs []int) int {\n\tn := 0\n\tfor _, x := range xs {\n\t\tif x > 0 {\n%s\n\t\t}\n\t}\n\treturn n\n}\n", m, rep("\t\t\tn++", m, "\n"))
	case "ifElseChain":
		// m else keywords: if {} (else if {})^(m-1) else {}
		s := fmt.Sprintf("func f%d(x int) int {\n\tif x == 0 {\n\t\treturn 0\n\t}", m)
		for i := 1; i < m; i++ {
			s += fmt.Sprintf(" else if x == %d {\n\t\treturn %d\n\t}", i, i)
		}
		if m >= 1 {
			s += " else {\n\t\treturn -1\n\t}"
		}
		return s + "\n\treturn -2\n}\n"
	case "commentedOutCode":
		// CommentGroup.Text() is "<name> = 1\n": len(name) + 5 runes
		name := rep("a", m-5, "")
		return fmt.Sprintf("func f%d() {\n\t%s := 0\n\t// %s = 1\n\t_ = %s\n}\n", m, name, name, name)
	}
	panic(checker)
}

const boolConstructs = `package pb

import "testing"

type T struct{ v int }

type wide struct{ a [64]int64 }

// a unit-test shaped function in an ordinary file (skipTestFuncs looks at the signature, not at the file name)
func TestRanges(t *testing.T) {
	ws := make([]wide, 2)
	n := 0
	for _, w := range ws {
		n += int(w.a[0])
	}
	var arr [4]wide
	for _, w := range arr {
		n += int(w.a[1])
	}
	t.Log(n)
}

func (t *T) n() int { return t.v }

func (t *T) recvDeref() int { return (*t).n() }

func captLocal(X int) int {
	Y := X
	return Y
}

func elseifBalanced(a, b bool) int {
	if a {
		if b {
			return 1
		}
	} else {
		if b {
			return 2
		}
	}
	return 3
}

func Exported() (int, int) { return 0, 0 }

func unexported() (int, int) { return 0, 0 }

func archDependent(x int, y int16) bool { return int16(x) < y }

// function-local types that share a name but not a size
func localSmall(xs []int) int {
	type item struct{ a int32 }
	n := 0
	for _, it := range []item{{1}, {2}} {
		n += int(it.a)
	}
	f := func(it item) int { return int(it.a) }
	return n + f(item{}) + len(xs)
}

func localBig(xs []int) int {
	type item struct{ a [40]int64 }
	n := 0
	for _, it := range []item{{}, {}} {
		n += int(it.a[0])
	}
	var arr [3]item
	for _, it := range arr {
		n += int(it.a[1])
	}
	return n + len(xs)
}

func localMid(xs []int) int {
	type item struct{ a, b int64 }
	n := 0
	for _, it := range []item{{1, 2}} {
		n += int(it.a + it.b)
	}
	return n + len(xs)
}

type padded struct {
	a byte
	b int64
	c byte
}

type words struct{ a, b, c uintptr }

func sizes(p padded, w words, q [3]int32, ws []words, arr [40]padded) int {
	n := 0
	for _, e := range ws {
		n += int(e.a)
	}
	for _, e := range arr {
		n += int(e.a)
	}
	_, _, _ = p, w, q
	return n
}
`

var bytesRE = regexp.MustCompile(`\((\d+) bytes\)|copies (\d+) bytes`)

// paramsCmd: constructs of exact measure m analysed with overridden parameter values (the integrator path),
// and the generated workspace is left on disk for the binaries.
func paramsCmd(args []string) {
	fs := flag.NewFlagSet("params", flag.ExitOnError)
	work := fs.String("work", "", "directory to create the workspace in")
	maxM := fs.Int("maxm", 6, "largest measure")
	out := fs.String("out", "", "output JSON")
	fs.Parse(args)
	hx.Init()
	checkers := []string{"hugeParam", "rangeValCopy", "rangeExprCopy", "tooManyResultsChecker", "nestingReduce", "ifElseChain", "commentedOutCode"}
	param := map[string]string{"hugeParam": "sizeThreshold", "rangeValCopy": "sizeThreshold", "rangeExprCopy": "sizeThreshold",
		"tooManyResultsChecker": "maxResults", "nestingReduce": "bodyWidth", "ifElseChain": "minThreshold", "commentedOutCode": "minLength"}
	hx.Must(os.MkdirAll(*work, 0o755))
	hx.Must(os.WriteFile(filepath.Join(*work, "go.mod"), []byte("module example.com/params\n\ngo 1.21\n"), 0o644))
	for _, c := range checkers {
		d := filepath.Join(*work, c)
		hx.Must(os.MkdirAll(d, 0o755))
		lo := 1
		if c == "commentedOutCode" {
			lo = 6
		}
		for m := lo; m < lo+*maxM; m++ {
			hx.Must(os.WriteFile(filepath.Join(d, fmt.Sprintf("m%02d.go", m)), []byte("package "+strings.ToLower(c)+"\n\n"+construct(c, m)), 0o644))
		}
	}
	hx.Must(os.MkdirAll(filepath.Join(*work, "pb"), 0o755))
	hx.Must(os.WriteFile(filepath.Join(*work, "pb", "pb.go"), []byte(boolConstructs), 0o644))

	fset := token.NewFileSet()
	pkgs, err := hx.Load(fset, *work, false, "./...")
	hx.Must(err)
	for _, p := range pkgs {
		if len(p.Errors) != 0 {
			hx.Fatalf("generated parameter workspace does not type-check: %v", p.Errors)
		}
	}
	units := hx.Units(fset, pkgs)
	infos := map[string]*linter.CheckerInfo{}
	for _, in := range hx.Infos() {
		infos[in.Name] = in
	}
	type obs struct {
		Checker  string   `json:"checker"`
		Param    string   `json:"param"`
		Value    string   `json:"value"`
		M        int      `json:"m"`
		Reported bool     `json:"reported"`
		Texts    []string `json:"texts"`
		Lines    []int    `json:"lines"`
		Sizes    []string `json:"sizes,omitempty"` // "quoted/sizeof" per warning of a size checker
	}
	var res []obs
	run := func(c, p string, v interface{}, u *hx.Unit, m int) {
		in := infos[c]
		old := in.Params[p].Value
		in.Params[p].Value = v
		_, ws, err := hx.Fresh(fset, in, u, "")
		in.Params[p].Value = old
		if err != nil {
			hx.Fatalf("%s with %s=%v: %v", c, p, v, err)
		}
		o := obs{Checker: c, Param: p, Value: fmt.Sprint(v), M: m, Reported: len(ws) > 0}
		for _, w := range ws {
			o.Texts = append(o.Texts, w.Text)
			o.Lines = append(o.Lines, fset.Position(w.Pos).Line)
			if mm := bytesRE.FindStringSubmatch(w.Text); mm != nil {
				q := mm[1] + mm[2]
				o.Sizes = append(o.Sizes, q+"/"+strconv.FormatInt(sizeAt(u, w.Pos, c), 10))
			}
		}
		res = append(res, o)
	}
	for _, u := range units {
		dir := filepath.Base(filepath.Dir(u.Phys))
		for _, c := range checkers {
			if strings.ToLower(c) != strings.ToLower(dir) {
				continue
			}
			m, _ := strconv.Atoi(strings.TrimSuffix(strings.TrimPrefix(filepath.Base(u.Phys), "m"), ".go"))
			lo := 0
			if c == "commentedOutCode" {
				lo = 5
			}
			for n := lo; n <= lo+*maxM+1; n++ {
				run(c, param[c], n, u, m)
			}
		}
		if dir == "pb" {
			for _, bc := range [][2]string{{"captLocal", "paramsOnly"}, {"elseif", "skipBalanced"}, {"underef", "skipRecvDeref"},
				{"unnamedResult", "checkExported"}, {"truncateCmp", "skipArchDependent"},
				{"rangeValCopy", "skipTestFuncs"}, {"rangeExprCopy", "skipTestFuncs"}} {
				run(bc[0], bc[1], true, u, 0)
				run(bc[0], bc[1], false, u, 0)
			}
			for _, sc := range [][2]string{{"hugeParam", "sizeThreshold"}, {"rangeValCopy", "sizeThreshold"}, {"rangeExprCopy", "sizeThreshold"}} {
				run(sc[0], sc[1], 1, u, -1)
			}
		}
	}
	b, _ := json.Marshal(res)
	hx.Must(os.WriteFile(*out, b, 0o644))
}

// sizeAt returns the platform size of the type the size checkers talk about at pos:
// the parameter / ranged element / ranged expression whose node starts at the warning position.
func sizeAt(u *hx.Unit, pos token.Pos, checker string) int64 {
	var best types.Type
	ast.Inspect(u.File, func(n ast.Node) bool {
		if n == nil || best != nil {
			return false
		}
		switch x := n.(type) {
		case *ast.Field: // hugeParam warns at the parameter name
			if x.Pos() == pos {
				best = u.Pkg.TypesInfo.TypeOf(x.Type)
			}
			for _, id := range x.Names {
				if id.Pos() == pos {
					best = u.Pkg.TypesInfo.TypeOf(x.Type)
				}
			}
		case *ast.RangeStmt:
			if x.Pos() == pos {
				t := u.Pkg.TypesInfo.TypeOf(x.X)
				if x.Value != nil && checker != "rangeExprCopy" {
					if vt := u.Pkg.TypesInfo.TypeOf(x.Value); vt != nil {
						best = vt // rangeValCopy: size of the element
					}
				}
				if best == nil {
					best = t
				}
				_ = t
			}
		}
		return true
	})
	if best == nil {
		return -1
	}
	return hx.Sizes.Sizeof(best)
}
