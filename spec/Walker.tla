------------------------------- MODULE Walker -------------------------------
(***************************************************************************)
(* The astwalk walkers (checkers/internal/astwalk) over abstract files.    *)
(* A file is a sequence of top-level chunks; a chunk has a kind            *)
(*   "func" plain function with a body    "bodyless" function without body *)
(*   "method"                              "gen" var/const/type declaration *)
(* a flag trig (it contains something the checker reports) and a flag      *)
(* residue (walking it leaves private checker state behind that would      *)
(* change what is reported for the next function if it were not reset).    *)
(* Walk(file) is the sequence of chunk ids that get a diagnostic, as the    *)
(* decl loop of the walkers produces it:                                    *)
(*     for each decl: func/method: if EnterFunc(decl) { reset; visit }      *)
(*                    other decls: visit (expr/type walkers) or skip        *)
(* What-if constants (TRUE = what the code does):                           *)
(*   ContinueOnBodyless  a rejected function is skipped (`continue`), the   *)
(*                       loop goes on (FALSE: `return`)                     *)
(*   EnterPerDecl        the EnterFunc answer is used for that declaration  *)
(*                       only (FALSE: remembered for following non-func     *)
(*                       declarations)                                      *)
(*   ResetPerFunc        scratch state is reset when a function is entered  *)
(*   AttributePerDecl    what a checker learns about a declaration in a     *)
(*                       look-ahead (unlabelStmt: "this function contains   *)
(*                       a goto, leave it alone") is attributed to that     *)
(*                       declaration (FALSE: to the last function seen - a  *)
(*                       single pass over the file that never forgets the   *)
(*                       function it left; a marked function literal in a   *)
(*                       var declaration then silences the function before) *)
(* mark: the chunk contains the construct the look-ahead searches for.      *)
(* WithMarks = FALSE keeps the enumeration of the deeper bound small.       *)
(* Local: diagnostics of a chunk do not depend on unrelated chunks being    *)
(* appended, inserted as padding, or on plain functions being reordered.    *)
(***************************************************************************)
EXTENDS Naturals, Sequences, FiniteSets, TLC
CONSTANTS MaxLen, ContinueOnBodyless, EnterPerDecl, ResetPerFunc, AttributePerDecl, WithMarks

Kinds == {"func", "bodyless", "method", "gen"}
Chunk(id, k, t, r, m) == [id |-> id, kind |-> k, trig |-> t, residue |-> r, mark |-> m]
MarkDom == IF WithMarks THEN BOOLEAN ELSE {FALSE}
\* files: chunk i has id i
Shapes == UNION { [1..n -> Kinds \X BOOLEAN \X BOOLEAN \X MarkDom] : n \in 1..MaxLen }
MkFile(sh) == [i \in DOMAIN sh |-> Chunk(i, sh[i][1], sh[i][2], sh[i][3], sh[i][4])]

\* the look-ahead: positions of the functions the checker leaves alone
IsFn(c) == c.kind \in {"func", "method"}
LastFn(f, i) == LET S == { j \in 1..i : IsFn(f[j]) } IN IF S = {} THEN 0 ELSE CHOOSE j \in S : \A k \in S : k <= j
Skipped(f) == IF AttributePerDecl THEN { i \in DOMAIN f : IsFn(f[i]) /\ f[i].mark }
              ELSE { LastFn(f, i) : i \in { j \in DOMAIN f : f[j].mark } } \ {0}

\* the decl loop; state = <<emitted ids, dirty scratch?, lastEnter, stopped>>
RECURSIVE WalkFrom(_, _, _, _, _)
WalkFrom(f, i, out, dirty, lastEnter) ==
  IF i > Len(f) THEN out
  ELSE LET c == f[i] IN
    IF c.kind \in {"func", "method", "bodyless"} THEN
      LET enter == c.kind # "bodyless" IN
      IF ~enter THEN (IF ContinueOnBodyless THEN WalkFrom(f, i + 1, out, dirty, FALSE) ELSE out)
      ELSE LET d0 == IF ResetPerFunc THEN FALSE ELSE dirty
               emits == c.trig /\ ~d0 /\ i \notin Skipped(f)                    \* stale scratch makes the checker miss / misreport
           IN WalkFrom(f, i + 1, IF emits THEN Append(out, c.id) ELSE out, d0 \/ c.residue, TRUE)
    ELSE \* var / const / type declaration: visited by the expr, type-expr and comment walkers
      LET visit == EnterPerDecl \/ lastEnter
      IN WalkFrom(f, i + 1, IF visit /\ c.trig THEN Append(out, c.id) ELSE out, dirty, lastEnter)
Walk(f) == WalkFrom(f, 1, <<>>, FALSE, TRUE)
Ids(s) == { s[i] : i \in DOMAIN s }

\* ---- transformations --------------------------------------------------------------
Perms(S) == { p \in [S -> S] : \A a, b \in S : a # b => p[a] # p[b] }
PlainPos(f) == { i \in DOMAIN f : f[i].kind = "func" }
\* reorder the plain functions among their own slots
Reorder(f, p) == [i \in DOMAIN f |-> IF i \in PlainPos(f) THEN f[p[i]] ELSE f[i]]
Pad == Chunk(0, "gen", FALSE, FALSE, FALSE)
PadFunc == Chunk(0, "func", FALSE, FALSE, FALSE)
PadBodyless == Chunk(0, "bodyless", FALSE, FALSE, FALSE)
PadGenMarked == Chunk(0, "gen", FALSE, FALSE, TRUE)      \* var f = func() { ... goto ... }
PadFuncMarked == Chunk(0, "func", FALSE, FALSE, TRUE)    \* an unrelated function with a goto
InsertAt(f, k, c) == SubSeq(f, 1, k) \o <<c>> \o SubSeq(f, k + 1, Len(f))

VARIABLES shape
Init == shape \in Shapes
Next == UNCHANGED shape
Spec == Init /\ [][Next]_shape
F == MkFile(shape)
Base == Ids(Walk(F))
LocalReorder == \A p \in Perms(PlainPos(F)) : Ids(Walk(Reorder(F, p))) = Base
LocalPad == \A k \in 0..Len(F) : \A c \in {Pad, PadFunc, PadBodyless, PadGenMarked, PadFuncMarked} : Ids(Walk(InsertAt(F, k, c))) \ {0} = Base
Local == LocalReorder /\ LocalPad
=============================================================================
