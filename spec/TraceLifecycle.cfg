SPECIFICATION TSpec
INVARIANTS BufEmptyAtBegin FileInPkg InfoIdentityStable InputsReadOnly
POSTCONDITION Accepted
CHECK_DEADLOCK FALSE
VIEW View
