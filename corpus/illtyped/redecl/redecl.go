// Package redecl does not type-check: functions, methods, fields and constants are declared twice.
package redecl

import (
	"fmt"
	"fmt"
	"strings"
)

type T struct {
	a int
	a string
}

func (t T) M() int { return t.a }
func (t T) M() int { x := 0; x = x + 1; return x }

const C = 1
const C = 2

func F(xs []int) int {
	if len(xs) >= 0 {
		return 1
	}
	return 0
}

func F(s string) string {
	switch {
	case s == "a":
		return fmt.Sprint(s)
	case s == "a":
		return strings.ToUpper(s)
	}
	return s
}
