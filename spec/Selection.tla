------------------------------ MODULE Selection ------------------------------
(***************************************************************************)
(* Which checkers run.  DocSel is the documented enable/disable/tag        *)
(* algebra; ImplCLI follows cmd/go-critic/check.go (bindDefaultEnabledList *)
(* + parseArgs + initCheckers), ImplAn follows checkers/analyzer (flag     *)
(* defaults + filterCheckersList), ImplDocsMark the check-mark of          *)
(* docs/overview.md.  One registered checker "self" with tag set p is      *)
(* observed; "other" is some other registered name.  Selection is decided  *)
(* per checker, so this is exhaustive over registries.                     *)
(*                                                                         *)
(* Every (profile, configuration) is an initial state; the predictions are *)
(* state variables so that `tlc -dump` exports the cases for replay on the *)
(* three real filter routines.                                             *)
(***************************************************************************)
EXTENDS Naturals, Sequences, FiniteSets, TLC

CONSTANTS MaxList,          \* maximal length of the -enable / -disable lists
          Profiles          \* tag profiles to sweep ("all" profiles or the ones of the real registry)

Cat == {"diagnostic", "style", "performance"}
Opt == {"experimental", "opinionated", "security"}
Tags == Cat \cup Opt
AllProfiles == { {c} \cup o : c \in Cat, o \in SUBSET Opt }
NameKey(n) == [kind |-> "name", v |-> n]
TagKey(t)  == [kind |-> "tag",  v |-> t]
\* names: the observed checker, another registered one, an unknown one, the empty entry, and names SPELLED LIKE A TAG;
\* tags: every tag, an unknown one, and a tag SPELLED LIKE THE OBSERVED CHECKER (names and #tags are separate namespaces)
Keys == { NameKey(n) : n \in {"self", "other", "unknown", ""} \cup Tags } \cup { TagKey(t) : t \in Tags \cup {"unknown", "self"} }
Lists == UNION { [1..n -> Keys] : n \in 0..MaxList }
Rng(s) == { s[i] : i \in 1..Len(s) }
Default == <<[kind |-> "default", v |-> ""]>>     \* sentinel: flag not given (a sequence, so it compares with lists)
NameIn(l) == NameKey("self") \in Rng(l)
TagIn(tags, l) == \E k \in Rng(l) : k.kind = "tag" /\ k.v \in tags

\* ---- documented ------------------------------------------------------------
IsDefault(tags) == tags \cap {"experimental", "opinionated", "performance", "security"} = {}
DocSel(tags, all, E, D) ==
  LET en == all \/ (IF E = Default THEN IsDefault(tags) ELSE NameIn(E) \/ TagIn(tags, E))
      dis == IF D = Default THEN FALSE ELSE NameIn(D) \/ TagIn(tags, D)
  IN en /\ ~dis

\* ---- CLI (and its twin: the same file) -------------------------------------
\* default -enable = comma-joined NAMES of the checkers without the four tags; default -disable = ""
ImplCLI(tags, all, E, D) ==
  LET byName == IF E = Default THEN IsDefault(tags) ELSE NameIn(E)
      byTag  == IF E = Default THEN FALSE ELSE TagIn(tags, E)
      enabled == all \/ byName \/ byTag
      dName == IF D = Default THEN FALSE ELSE NameIn(D)
      dTag  == IF D = Default THEN FALSE ELSE TagIn(tags, D)
  IN IF ~enabled THEN FALSE ELSE IF dName THEN FALSE ELSE ~dTag

\* ---- analyzer ----------------------------------------------------------------
AnDefaultEnable == <<TagKey("diagnostic"), TagKey("style"), TagKey("security")>>
AnDefaultDisable(all) == IF all THEN <<>> ELSE <<TagKey("experimental"), TagKey("opinionated"), TagKey("performance")>>
ImplAn(tags, all, E, D) ==
  LET e == IF E = Default THEN AnDefaultEnable ELSE E
      d == IF D = Default THEN AnDefaultDisable(all) ELSE D
      enabled == all \/ NameIn(e) \/ TagIn(tags, e)
  IN IF ~enabled THEN FALSE ELSE IF NameIn(d) THEN FALSE ELSE ~TagIn(tags, d)
\* the same user intent in the analyzer dialect: explicit lists stay explicit; a defaulted list on one side combined
\* with an explicit one on the other cannot be expressed by leaving the flag out (its "<default>" disable value
\* silently disappears / silently applies) -- such configurations are outside "equivalent configuration".
Translatable(all, E, D) == ~(E = Default /\ D # Default) /\ ~(E # Default /\ D = Default /\ ~all)
\* docs: check-mark in docs/overview.md
ImplDocsMark(tags) == tags \cap {"experimental", "opinionated", "performance"} = {}

VARIABLES p, a, e, d,            \* the case
          doc, cli, an, transl   \* predictions (exported)
vars == <<p, a, e, d, doc, cli, an, transl>>
Init == /\ p \in Profiles /\ a \in BOOLEAN /\ e \in Lists \cup {Default} /\ d \in Lists \cup {Default}
        /\ doc = DocSel(p, a, e, d) /\ cli = ImplCLI(p, a, e, d) /\ an = ImplAn(p, a, e, d)
        /\ transl = Translatable(a, e, d)
Next == UNCHANGED vars
Spec == Init /\ [][Next]_vars

CLIConforms == cli = doc
AnConforms == transl => an = doc
AnConformsNoSecurity == ("security" \notin p /\ transl) => an = doc
DocsConform == ("security" \notin p) => (ImplDocsMark(p) = DocSel(p, FALSE, Default, Default))
\* what-if: "enable wins over disable" (order swap) -- must be refuted
ImplCLISwapped(tags, all, E, D) ==
  LET dis == IF D = Default THEN FALSE ELSE NameIn(D) \/ TagIn(tags, D)
      byName == IF E = Default THEN IsDefault(tags) ELSE NameIn(E)
      byTag  == IF E = Default THEN FALSE ELSE TagIn(tags, E)
  IN IF dis /\ ~byName THEN FALSE ELSE all \/ byName \/ byTag
SwappedConforms == ImplCLISwapped(p, a, e, d) = doc
==============================================================================
