package main

import (
	"encoding/json"
	"flag"
	"go/ast"
	"go/parser"
	"go/token"
	"os"
	"path/filepath"
	"strings"

	"verifharness/hx"
)

func init() { commands["rulefacts"] = rulefacts }

// rulefacts extracts the rule groups of checkers/rules/rules.go with their //doc: lines (B-extract for C17).
func rulefacts(args []string) {
	fs := flag.NewFlagSet("rulefacts", flag.ExitOnError)
	out := fs.String("out", "", "output JSON")
	src := fs.String("rules", filepath.Join(hx.Repo(), "checkers", "rules", "rules.go"), "rules source")
	fs.Parse(args)
	fset := token.NewFileSet()
	f, err := parser.ParseFile(fset, *src, nil, parser.ParseComments)
	hx.Must(err)
	type group struct {
		Name    string   `json:"name"`
		Tags    []string `json:"tags"`
		Summary string   `json:"summary"`
		Before  string   `json:"before"`
		After   string   `json:"after"`
		Note    string   `json:"note"`
		Rules   int      `json:"rules"`
	}
	var groups []group
	for _, d := range f.Decls {
		fd, ok := d.(*ast.FuncDecl)
		if !ok || fd.Recv != nil || fd.Type.Params == nil || len(fd.Type.Params.List) != 1 {
			continue
		}
		sel, ok := fd.Type.Params.List[0].Type.(*ast.SelectorExpr)
		if !ok || sel.Sel.Name != "Matcher" {
			continue
		}
		g := group{Name: fd.Name.Name}
		if fd.Doc != nil {
			for _, c := range fd.Doc.List {
				t := strings.TrimPrefix(c.Text, "//")
				switch {
				case strings.HasPrefix(t, "doc:summary"):
					g.Summary = strings.TrimSpace(strings.TrimPrefix(t, "doc:summary"))
				case strings.HasPrefix(t, "doc:tags"):
					g.Tags = strings.Fields(strings.TrimPrefix(t, "doc:tags"))
				case strings.HasPrefix(t, "doc:before"):
					g.Before = strings.TrimSpace(strings.TrimPrefix(t, "doc:before"))
				case strings.HasPrefix(t, "doc:after"):
					g.After = strings.TrimSpace(strings.TrimPrefix(t, "doc:after"))
				case strings.HasPrefix(t, "doc:note"):
					g.Note = strings.TrimSpace(strings.TrimPrefix(t, "doc:note"))
				}
			}
		}
		ast.Inspect(fd.Body, func(n ast.Node) bool {
			if c, ok := n.(*ast.CallExpr); ok {
				if s, ok := c.Fun.(*ast.SelectorExpr); ok && s.Sel.Name == "Match" {
					g.Rules++
				}
			}
			return true
		})
		groups = append(groups, g)
	}
	b, _ := json.MarshalIndent(map[string]interface{}{"groups": groups}, "", " ")
	if *out == "" {
		os.Stdout.Write(b)
	} else {
		hx.Must(os.WriteFile(*out, b, 0o644))
	}
}
