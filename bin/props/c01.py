"""C01 - no checker crashes or hangs on any compilable package.

Spec: Lifecycle.tla - CheckBegin is always followed by Walked and CheckEnd; TraceLifecycle.tla has no action for a
CheckPanic / CheckTimeout event, so a recorded execution containing one is rejected at that line. Program space:
Scopes.tla enumerates the namesake / unusual-shape programs the property singles out (rendered by the harness and
type-checked: the model's WellFormed prediction must agree with go/types); corpora: example files, generated
programs; thorough: std, the repository, all parameter corners, and the real binaries on the generated workspaces.
"""
import vlib
from props import lifecycle_common as lc
from props import gen_common


def run(ctx):
    thorough = ctx.tier == "thorough"
    design = lc.design(ctx, [], coverage=False)
    gdir = gen_common.generate(ctx, "c01")
    plans = [("examples", ["-corpus", "examples", "-mode", "cli", "-oblig", "none"]),
             ("examples_min", ["-corpus", "examples", "-mode", "cli", "-oblig", "none", "-params", "min"]),
             ("examples_one", ["-corpus", "examples", "-mode", "cli", "-oblig", "none", "-params", "one"])]
    if gdir:
        plans.append(("generated", ["-corpus", "dir:" + gdir, "-mode", "cli", "-oblig", "none"]))
        plans.append(("generated_min", ["-corpus", "dir:" + gdir, "-mode", "cli", "-oblig", "none", "-params", "min"]))
    if thorough:
        plans.append(("examples_max", ["-corpus", "examples", "-mode", "cli", "-oblig", "none", "-params", "max"]))
        plans.append(("std_repo", ["-corpus", "std,repo", "-mode", "cli", "-oblig", "none"]))
        plans.append(("std_min", ["-corpus", "std", "-mode", "cli", "-oblig", "none", "-params", "min"]))
        plans.append(("std_max", ["-corpus", "std:80", "-mode", "cli", "-oblig", "none", "-params", "max"]))
    events = states = checks = 0
    files = 0
    first_trace = None
    samples = []
    for tag, args in plans:
        res, trace = lc.run_harness(ctx, "c01_" + tag, args, timeout=6000)
        first_trace = first_trace or trace
        e, s = lc.judge(ctx, res, trace)
        events += e
        states += s
        checks += res["checks"]
        files += res["units"]
        samples += res["samples"][:1]
        for n in res["nonconf"]:
            if n["kind"] in ("Panic", "Timeout"):
                top = next((d.strip() for d in n["detail"] if "/repo/checkers/" in d or "/repo/linter/" in d), "")
                ctx.fail("%s %s" % (n["kind"], n["checker"]),
                         "%s in checker %s on %s: %s [%s]" % (n["kind"], n["checker"], n["file"], n["detail"][0], top),
                         {"cmd": "vh lifecycle " + " ".join(args), "nonconf": n})

    # anti-vacuity: a trace with a missing walk (panic) must be rejected
    def drop(e):
        return {"ev": "CheckPanic", "c": e["c"], "file": e["file"]} if e["ev"] == "Walked" else None
    lc.canary(ctx, first_trace, drop)
    gen_stats = gen_common.stats(ctx)
    st, tr = vlib.tlc_states_total(ctx)
    cov = {
        "states": st, "transitions": tr, "traces_validated_against_impl": len(plans),
        "events_validated": events, "checks": checks, "files": files,
        "corpora": [p[0] for p in plans], "design": design, "generated": gen_stats, "exhaustive": False,
        "samples": samples[:5] or ["(none)"],
    }
    return ctx.finish("model_checking", cov, ["per-Check deadline 60 s; panics are recovered per Check so the run continues"])
