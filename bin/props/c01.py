"""C01 - no checker crashes or hangs on any compilable package.

Spec: Lifecycle.tla - CheckBegin is always followed by Walked and CheckEnd; TraceLifecycle.tla has no action for a
CheckPanic / CheckTimeout event, so a recorded execution containing one is rejected at that line. Program space:
Scopes.tla enumerates the namesake / unusual-shape programs the property singles out (rendered by the harness and
type-checked: the model's WellFormed prediction must agree with go/types); corpora: example files, generated
programs; thorough: std, the repository, all parameter corners, and the real binaries on the generated workspaces.
"""
import os
import re
import subprocess

import vlib
from props import lifecycle_common as lc
from props import gen_common


CRASH = re.compile(r"panic:|goroutine \d+ \[|SIGSEGV|fatal error:")


def binaries_on_corpus(ctx, gdir, thorough):
    """The real front-ends on the adversarial corpus (all checkers, several concurrency values, repeated): no crash."""
    n = 0
    cli = ctx.build_repo_bin("cmd/go-critic")
    ana = ctx.build_repo_bin("cmd/go-critic-analysis")
    ncpu = os.cpu_count() or 4
    runs = [([cli, "check", "-enableAll", "-concurrency", str(k), "./..."], "cli -concurrency %d" % k) for k in ([ncpu, 2, ncpu, 64] if thorough else [ncpu, ncpu, 2])]
    runs += [([ana, "-enable-all", "./..."], "analysis")] * (2 if thorough else 1)
    if thorough:
        runs.append(([ctx.build_repo_bin("cmd/gocritic"), "check", "-enableAll", "./..."], "twin"))
    for args, tag in runs:
        r = subprocess.run(args, cwd=gdir, capture_output=True, text=True, env=vlib.goenv(), timeout=900)
        n += 1
        if CRASH.search(r.stderr):
            line = next(l for l in r.stderr.splitlines() if CRASH.search(l))
            ctx.fail("BinaryCrash %s" % tag.split()[0], "%s on the adversarial corpus crashed: %s" % (tag, line[:300]), {"args": args[1:], "stderr": r.stderr[-2000:]})
    return n


def run_resilient(ctx, tag, args, timeout=6000):
    """lc.run_harness, but an unrecoverable crash of the in-process harness (stack overflow, concurrent map write: Go cannot
    recover from these) is a verdict about the checker on the stack; the run is repeated without that checker."""
    import json
    excluded = []
    for attempt in range(5):
        trace = ctx.path("traces", "%s_%d.ndjson" % (tag, attempt))
        out = ctx.path("traces", "%s_%d.json" % (tag, attempt))
        a = ["lifecycle", "-trace", trace, "-out", out, "-seed", str(ctx.seed)] + args + (["-exclude", ",".join(excluded)] if excluded else [])
        r = ctx.run_vh(a, timeout=timeout, check=False)
        if r.returncode == 0 and os.path.exists(out):
            res = json.load(open(out))
            res["nonconf"] = res.get("nonconf") or []
            return res, trace
        m = re.search(r"fatal error: ([^\n]*)", r.stderr)
        c = re.search(r"go-critic/checkers\.\(\*(\w+?)Checker\)\.(\w+)", r.stderr)
        if not m or not c or c.group(1) in excluded:
            raise vlib.Infra("harness failed (rc=%d): vh %s\n%s" % (r.returncode, " ".join(a), r.stderr[-4000:]))
        excluded.append(c.group(1))
        ctx.fail("Fatal %s" % c.group(1), "checker %s kills the process (%s) in %s; corpus %s" % (c.group(1), m.group(1), c.group(2), tag),
                 {"cmd": "vh " + " ".join(a), "stderr_head": r.stderr[:3000]})
    raise vlib.Infra("harness keeps crashing: excluded %s" % excluded)


def run(ctx):
    thorough = ctx.tier == "thorough"
    design = lc.design(ctx, [], coverage=False)
    gdir = gen_common.generate(ctx, "c01")
    plans = [("examples", ["-corpus", "examples", "-mode", "cli", "-oblig", "none"]),
             ("examples_min", ["-corpus", "examples", "-mode", "cli", "-oblig", "none", "-params", "min"]),
             ("examples_one", ["-corpus", "examples", "-mode", "cli", "-oblig", "none", "-params", "one"])]
    if gdir:
        plans.append(("generated", ["-corpus", "dir:" + gdir, "-mode", "cli", "-oblig", "none"]))
        plans.append(("generated_min", ["-corpus", "dir:" + gdir, "-mode", "cli", "-oblig", "none", "-params", "min"]))
    if thorough:
        plans.append(("examples_max", ["-corpus", "examples", "-mode", "cli", "-oblig", "none", "-params", "max"]))
        plans.append(("std_repo", ["-corpus", "std,repo", "-mode", "cli", "-oblig", "none"]))
        plans.append(("std_min", ["-corpus", "std", "-mode", "cli", "-oblig", "none", "-params", "min"]))
        plans.append(("std_max", ["-corpus", "std:80", "-mode", "cli", "-oblig", "none", "-params", "max"]))
    events = states = checks = 0
    files = 0
    first_trace = None
    samples = []
    for tag, args in plans:
        res, trace = run_resilient(ctx, "c01_" + tag, args)
        first_trace = first_trace or trace
        e, s = lc.judge(ctx, res, trace)
        events += e
        states += s
        checks += res["checks"]
        files += res["units"]
        samples += res["samples"][:1]
        for n in res["nonconf"]:
            if n["kind"] in ("Panic", "Timeout"):
                top = next((d.strip() for d in n["detail"] if "/repo/checkers/" in d or "/repo/linter/" in d), "")
                ctx.fail("%s %s" % (n["kind"], n["checker"]),
                         "%s in checker %s on %s: %s [%s]" % (n["kind"], n["checker"], n["file"], n["detail"][0], top),
                         {"cmd": "vh lifecycle " + " ".join(args), "nonconf": n})

    bins = binaries_on_corpus(ctx, gdir, thorough)
    # programs enumerated by Scopes.tla (namesakes of builtins / std packages, calls without arguments): every checker on every one
    from props import scopes_common as sc
    sc.design(ctx)
    byid, sobs, _ = sc.run(ctx)
    scope_programs = 0
    for o in sobs:
        if not o["typeOK"]:
            continue
        scope_programs += 1
        for pmsg in o["panics"] or []:
            chk = pmsg.split(":")[0]
            ctx.fail("Panic %s" % chk, "Panic in checker %s on a program with a user-defined %s (%s, %s): %s"
                     % (chk, o["subject"], byid[o["case"]]["Shape"], o["resolved"], pmsg[:300]), {"subject": o["subject"], "case": byid[o["case"]], "source": o["src"]})

    # anti-vacuity: a trace with a missing walk (panic) must be rejected
    def drop(e):
        return {"ev": "CheckPanic", "c": e["c"], "file": e["file"]} if e["ev"] == "Walked" else None
    lc.canary(ctx, first_trace, drop)
    gen_stats = gen_common.stats(ctx)
    st, tr = vlib.tlc_states_total(ctx)
    cov = {
        "states": st, "transitions": tr, "traces_validated_against_impl": len(plans),
        "events_validated": events, "checks": checks, "files": files,
        "corpora": [p[0] for p in plans], "binary_runs": bins, "scopes_programs": scope_programs, "design": design, "generated": gen_stats, "exhaustive": False,
        "samples": samples[:5] or ["(none)"],
    }
    return ctx.finish("model_checking", cov, ["per-Check deadline 60 s; panics are recovered per Check so the run continues"])
