----------------------------- MODULE TypeSwitch -----------------------------
(***************************************************************************)
(* Go type-switch dispatch over a small type universe, and the claim of    *)
(* checkers/caseOrder_checker.go ("case X must go before the Y case", i.e. *)
(* X can never be reached where it stands).                                *)
(* Universe: concrete types T, U (value receivers), P (its methods have    *)
(* pointer receivers, so only *P = "PP" implements interfaces), interfaces *)
(* A, B (B embeds A's method set) and the empty interface "any"; case nil. *)
(* Every list of up to MaxCases distinct case types is an initial state;   *)
(* the predictions (dispatch per dynamic value, flagged clauses) are       *)
(* exported and replayed: rendered switches are executed on all values.    *)
(* NilImplementsEmpty = TRUE is what types.Implements(untyped nil, any)    *)
(* answers (the pinned checker asks it); PtrRecvCounts = TRUE is the       *)
(* what-if "methods with pointer receivers count for the value type".      *)
(***************************************************************************)
EXTENDS Naturals, Sequences, FiniteSets, TLC
CONSTANTS MaxCases, NilImplementsEmpty, PtrRecvCounts
Conc == {"T", "U", "P", "PP"}
Ifaces == {"A", "B", "any"}
CaseTypes == Conc \cup Ifaces \cup {"nil"}
\* method sets: T has a(); U has a(), b(); *P has a(); P has none
Impl == [t \in Conc |-> CASE t = "T" -> {"A"} [] t = "U" -> {"A", "B"} [] t = "PP" -> {"A"} [] OTHER -> {}]
Sub == [i \in Ifaces |-> CASE i = "B" -> {"A"} [] OTHER -> {}]
Values == Conc \cup {"nilvalue"}

Satisfies(v, ct) ==
  CASE ct = "nil" -> v = "nilvalue"
    [] v = "nilvalue" -> FALSE
    [] ct \in Conc -> v = ct
    [] OTHER -> ct = "any" \/ ct \in Impl[v]
Dispatch(v, cs) == IF \E i \in 1..Len(cs) : Satisfies(v, cs[i])
                   THEN CHOOSE i \in 1..Len(cs) : Satisfies(v, cs[i]) /\ \A j \in 1..(i-1) : ~Satisfies(v, cs[j])
                   ELSE 0
ImplementsT(x, i) ==
  CASE x = "nil" -> NilImplementsEmpty /\ i = "any"
    [] x = "P" -> i = "any" \/ (PtrRecvCounts /\ i = "A")
    [] x \in Conc -> i = "any" \/ i \in Impl[x]
    [] OTHER -> i = "any" \/ i = x \/ i \in Sub[x]
Flagged(cs) == { j \in 1..Len(cs) : \E i \in 1..(j-1) : cs[i] \in Ifaces /\ ImplementsT(cs[j], cs[i]) }

VARIABLES cases, dispatch, flagged
vars == <<cases, dispatch, flagged>>
Lists == { s \in UNION { [1..n -> CaseTypes] : n \in 2..MaxCases } : \A i, j \in DOMAIN s : i # j => s[i] # s[j] }
Init == cases \in Lists /\ dispatch = [v \in Values |-> Dispatch(v, cases)] /\ flagged = Flagged(cases)
Next == UNCHANGED vars
Spec == Init /\ [][Next]_vars
ClaimTrue == \A j \in flagged : \A v \in Values : dispatch[v] # j
=============================================================================
