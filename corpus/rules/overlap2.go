//go:build ignore

package gorules

import "github.com/quasilyte/go-ruleguard/dsl"

func overlap2(m dsl.Matcher) {
	m.Match(`$x = $x + 1`).Report(`overlap2: increment of $x`)
	m.Match(`len($s) >= 0`).Report(`overlap2: len of $s`)
}
