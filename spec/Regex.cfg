SPECIFICATION Spec
CONSTANTS
  Level = 1
  ExportFinds = FALSE
  GuardAltMeta = TRUE
  GuardBrace = TRUE
  GuardZeroCap = TRUE
  GuardEmptyAlt = TRUE
  GuardPrefixOrder = TRUE
INVARIANTS SameLanguage
