// Package imports: files with imports followed (in another package) by files without.
package imports

import (
	"fmt"
	"os"
	"path/filepath"
	str "strings"
	. "math"
	_ "embed"
)

func A() {
	fmt.Println(filepath.Join("a", "b"), os.Args, str.ToUpper("x"), Pi)
}
