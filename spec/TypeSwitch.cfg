SPECIFICATION Spec
CONSTANTS
  MaxCases = 3
  NilImplementsEmpty = FALSE
  PtrRecvCounts = FALSE
INVARIANTS ClaimTrue
