SPECIFICATION Spec
CONSTANTS
  MaxPkgs = 3
  CLIValidatesVersion = TRUE
  LatchReturnsError = TRUE
  AnalyzerRejectsEmpty = TRUE
INVARIANTS Conforms
