//go:build ignore

package gorules

import "github.com/quasilyte/go-ruleguard/dsl"

func overlap3(m dsl.Matcher) {
	m.Match(`$x = $x + 1`).Report(`overlap3: increment of $x`)
	m.Match(`len($s) >= 0`).Report(`overlap3: len of $s`)
}
