-------------------------------- MODULE Regex --------------------------------
(***************************************************************************)
(* Regular expressions as the quasilyte/regex/syntax parser sees them, a   *)
(* transcription of checkers/regexpSimplify_checker.go (one walk = one     *)
(* pass; two passes, the second over the first pass' output as it is read  *)
(* back), and leftmost-first matching with numbered captures (the          *)
(* semantics of Go's regexp).  Every enumerated AST is an initial state;   *)
(* its printed pattern, the predicted rewrite, the rewrite actions applied *)
(* and the model's verdict are exported and replayed: the real checker     *)
(* analyses regexp.MustCompile(pattern) and Go's regexp judges the real    *)
(* suggestion and validates this module's matcher.                         *)
(*                                                                         *)
(* Guards (constants) name the context conditions of the rewrites; the     *)
(* values of the repaired tree are in Regex.cfg, each what-if refutes      *)
(* SameLanguage.                                                           *)
(***************************************************************************)
EXTENDS Integers, Sequences, FiniteSets, TLC
CONSTANTS Level,                 \* 0 = focus set of the what-ifs, 1 = quick enumeration, 2 = thorough, 3 = pseudo-random deep terms
          SimOff, SimN,          \* level 3: the seeds SimOff+1 .. SimOff+SimN
          Slice,                 \* 0 = everything; k > 0 = only the terms built around the k-th context
          ExportFinds,           \* TRUE: export Find(e, s) for every subject (matcher validation)
          GuardAltMeta,          \* x|y|z => [xyz] escapes the class metacharacters - and ]
          GuardBrace,            \* [{] is not unwrapped (a following `2}` would become a repeat)
          GuardZeroCap,          \* x{0} is dropped only if x contains no capture group
          GuardEmptyAlt,         \* an empty alternative is not a literal for prefix/suffix factoring
          PadOctal,              \* \01 is printed as \001, so that a digit that becomes its neighbour does not join the escape
          FlagPrefix,            \* (?i:x) is printed with its question mark
          GuardRangeSafe,        \* a-c => abc only if no produced character is special inside a class ([,--a] => [,-a] is another class)
          GuardCombineCap,       \* x x => x{2} and x x* => x+ are not applied to groups that contain capture groups
          GuardBraceComma,       \* `{`, `}` and `,` are never unwrapped / unescaped: a{2\,2} => a{2,2} would complete a repeat (NOT in the code)
          GuardLazyRep,          \* x{1}? and x{0}? are left alone (without the repeat the ? becomes a quantifier of its own)
          GuardRangeBeforeDash,  \* [a-c-z]: a range followed by - is not expanded (abc-z would contain the range c-z)
          GuardPrefixOrder       \* ab|aba => aba? only if the longer literal comes first (leftmost-first choice)

Sym == {"SOH", " ", ",", "-", ".", "0", "2", "9", ":", "]", "^", "a", "b", "c", "z", "{", "}"}
Code == [c \in Sym |->
  CASE c = "SOH" -> 1 [] c = " " -> 32 [] c = "," -> 44 [] c = "-" -> 45 [] c = "." -> 46 [] c = "0" -> 48 [] c = "2" -> 50
    [] c = "9" -> 57 [] c = ":" -> 58 [] c = "]" -> 93 [] c = "^" -> 94 [] c = "a" -> 97 [] c = "b" -> 98 [] c = "c" -> 99
    [] c = "z" -> 122 [] c = "{" -> 123 [] c = "}" -> 125]
Digits == {"0", "2", "9"}
Words == Digits \cup {"a", "b", "c", "z"}
KSet(k) == CASE k = "d" -> Digits [] k = "D" -> Sym \ Digits [] k = "w" -> Words [] k = "W" -> Sym \ Words
             [] k = "s" -> {" "} [] k = "S" -> Sym \ {" "}

\* ---- AST ----------------------------------------------------------------------
Ch(c)       == [op |-> "ch", c |-> c]
Dot         == [op |-> "dot"]
EscM(c)     == [op |-> "escm", c |-> c]                    \* OpEscapeMeta  \. \- \]
EscC(c)     == [op |-> "escc", c |-> c]                    \* OpEscapeChar of a punctuation char  \, \: (and \. \^ inside a class)
EscK(k)     == [op |-> "esck", k |-> k]                    \* OpEscapeChar naming a class  \d \w \s \D \W \S
Oct         == [op |-> "oct"]                              \* \01
Oct3        == [op |-> "oct3"]                             \* \001, how the simplifier prints \01 (PadOctal)
Rng(l, h)   == [op |-> "rng", l |-> l, h |-> h]
Posix(k, n) == [op |-> "posix", k |-> k, neg |-> n]        \* [:digit:] [:^word:]
Cls(items)  == [op |-> "cls", items |-> items]
NCls(items) == [op |-> "ncls", items |-> items]
Grp(x)      == [op |-> "grp", x |-> x]                      \* (?:x)
FlagGrp(x)  == [op |-> "flag", x |-> x]                     \* (?i:x); no letter of the alphabet has another case
Cap(x)      == [op |-> "cap", x |-> x]                      \* (x)
NCap(x)     == [op |-> "ncap", x |-> x]                     \* (?P<n>x)
Star(x)     == [op |-> "star", x |-> x]
Plus(x)     == [op |-> "plus", x |-> x]
Quest(x)    == [op |-> "quest", x |-> x]
Lazy(x)     == [op |-> "lazy", x |-> x]                     \* x is a star/plus/quest node
Rep(x, r)   == [op |-> "rep", x |-> x, r |-> r]             \* r: the text between the braces
Cat(xs)     == [op |-> "cat", xs |-> xs]
Alt(xs)     == [op |-> "alt", xs |-> xs]
Empty       == Cat(<<>>)

PosixName(k) == CASE k = "d" -> "digit" [] k = "w" -> "word" [] OTHER -> "space"
RECURSIVE Show(_)
ShowAll(xs, sep) == LET RECURSIVE P(_) P(k) == IF k > Len(xs) THEN <<>> ELSE (IF k > 1 THEN sep ELSE <<>>) \o Show(xs[k]) \o P(k+1) IN P(1)
Show(e) ==
  CASE e.op = "ch"    -> <<e.c>>
    [] e.op = "dot"   -> <<".">>
    [] e.op \in {"escm", "escc"} -> <<"\\", e.c>>
    [] e.op = "esck"  -> <<"\\", e.k>>
    [] e.op = "oct"   -> <<"\\", "0", "1">>
    [] e.op = "oct3"  -> <<"\\", "0", "0", "1">>
    [] e.op = "rng"   -> <<e.l, "-", e.h>>
    [] e.op = "posix" -> <<"[:">> \o (IF e.neg THEN <<"^">> ELSE <<>>) \o <<PosixName(e.k), ":]">>
    [] e.op = "cls"   -> <<"[">> \o ShowAll(e.items, <<>>) \o <<"]">>
    [] e.op = "ncls"  -> <<"[", "^">> \o ShowAll(e.items, <<>>) \o <<"]">>
    [] e.op = "grp"   -> <<"(", "?", ":">> \o Show(e.x) \o <<")">>
    [] e.op = "flag"  -> <<"(", "?", "i", ":">> \o Show(e.x) \o <<")">>
    [] e.op = "cap"   -> <<"(">> \o Show(e.x) \o <<")">>
    [] e.op = "ncap"  -> <<"(", "?", "P<n>">> \o Show(e.x) \o <<")">>
    [] e.op = "star"  -> Show(e.x) \o <<"*">>
    [] e.op = "plus"  -> Show(e.x) \o <<"+">>
    [] e.op \in {"quest", "lazy"} -> Show(e.x) \o <<"?">>
    [] e.op = "rep"   -> Show(e.x) \o <<"{", e.r, "}">>
    [] e.op = "cat"   -> ShowAll(e.xs, <<>>)
    [] e.op = "alt"   -> ShowAll(e.xs, <<"|">>)

\* ---- how a printed class body is read back -------------------------------------
\* units: class items; a Ch, a Ch("-") and a Ch in a row are read as a range
RECURSIVE ReadClass(_)
ReadClass(us) ==
  IF us = <<>> THEN <<>>
  ELSE IF Len(us) >= 3 /\ us[1].op = "ch" /\ us[2] = Ch("-") /\ us[3].op = "ch"
       THEN <<Rng(us[1].c, us[3].c)>> \o ReadClass(SubSeq(us, 4, Len(us)))
       ELSE <<us[1]>> \o ReadClass(SubSeq(us, 2, Len(us)))
ValidItems(items) == \A i \in DOMAIN items : items[i].op = "rng" => Code[items[i].l] <= Code[items[i].h]

\* ---- the simplifier --------------------------------------------------------------
\* a walk returns [e |-> the rewritten AST as the next pass will read it, n |-> score, a |-> actions applied]
R(e, n, a) == [e |-> e, n |-> n, a |-> a]
Flat(xs) == LET RECURSIVE F(_) F(k) == IF k > Len(xs) THEN <<>> ELSE
                  (IF xs[k] = Empty THEN <<>> ELSE IF xs[k].op = "cat" THEN xs[k].xs ELSE <<xs[k]>>) \o F(k+1) IN F(1)
MkCat(xs) == LET ys == Flat(xs) IN IF Len(ys) = 1 THEN ys[1] ELSE Cat(ys)
AllChars(xs) == \A i \in DOMAIN xs : xs[i].op = "ch"
RECURSIVE HasCap(_)
HasCap(e) == CASE e.op \in {"cap", "ncap"} -> TRUE
               [] e.op \in {"grp", "flag", "star", "plus", "quest", "lazy", "rep"} -> HasCap(e.x)
               [] e.op \in {"cat", "alt"} -> \E i \in DOMAIN e.xs : HasCap(e.xs[i])
               [] OTHER -> FALSE
CapOK(x) == GuardCombineCap => ~HasCap(x)
CanMerge(x, y) == x.op = y.op /\ x.op \in {"ch", "cls", "escm", "escc", "esck", "ncls", "grp"} /\ Show(x) = Show(y) /\ CapOK(x)
\* threshold for x x x ... => x{n}; 0 = cannot combine
Threshold(x, y) == IF x.op # y.op THEN 0
                   ELSE CASE x.op = "dot" -> 3
                          [] x.op = "ch" -> IF x.c # y.c THEN 0 ELSE IF x.c = " " THEN 1 ELSE 4
                          [] x.op \in {"escm", "escc", "esck"} -> IF Show(x) = Show(y) THEN 2 ELSE 0
                          [] x.op \in {"cls", "ncls", "grp"} -> IF Show(x) = Show(y) /\ CapOK(x) THEN 1 ELSE 0
                          [] OTHER -> 0
ConcatLiteral(e) == IF e.op = "cat" /\ AllChars(e.xs) /\ (GuardEmptyAlt => e.xs # <<>>)
                    THEN (IF e.xs = <<>> THEN <<"|">> ELSE [i \in DOMAIN e.xs |-> e.xs[i].c]) ELSE <<>>
IsPrefix(p, s) == Len(p) <= Len(s) /\ SubSeq(s, 1, Len(p)) = p
IsSuffix(p, s) == Len(p) <= Len(s) /\ SubSeq(s, Len(s) - Len(p) + 1, Len(s)) = p
Chars(cs) == [i \in DOMAIN cs |-> Ch(cs[i])]
Removable == {".", ":"} \cup (IF GuardBraceComma THEN {} ELSE {","})                          \* of the escapes in the alphabet, those the code un-escapes
ClassMeta == {"-", "]"}
NoUnwrap == {"|", "*", "+", "?", ".", "[", "^", "$", "(", ")"} \cup (IF GuardBrace THEN {"{"} ELSE {}) \cup (IF GuardBraceComma THEN {"}", ","} ELSE {})
Alnum == {"0", "2", "9", "a", "b", "c", "z"}
BraceChars == {"{", "}", ","}
Mid(l) == CHOOSE c \in Sym : Code[c] = Code[l] + 1

ClsTable(e) ==      \* simplifyCharClass / simplifyNegCharClass: whole-class spellings
  LET i == IF Len(e.items) = 1 THEN e.items[1] ELSE Dot IN
  IF e.op = "cls" THEN
    CASE i = Rng("0", "9") -> EscK("d")
      [] i.op = "posix" -> EscK(IF i.neg THEN (CASE i.k = "d" -> "D" [] i.k = "w" -> "W" [] OTHER -> "S") ELSE i.k)
      [] i = Ch("]") -> EscM("]")
      [] OTHER -> Empty
  ELSE
    CASE i = Rng("0", "9") -> EscK("D")
      [] i.op = "esck" -> EscK(CASE i.k = "s" -> "S" [] i.k = "S" -> "s" [] i.k = "w" -> "W" [] i.k = "W" -> "w" [] i.k = "d" -> "D" [] OTHER -> "d")
      [] i.op = "posix" -> EscK(IF i.neg THEN i.k ELSE (CASE i.k = "d" -> "D" [] i.k = "w" -> "W" [] OTHER -> "S"))
      [] OTHER -> Empty

RECURSIVE Walk(_)
WalkSeq(xs) == [i \in DOMAIN xs |-> Walk(xs[i])]
Sum(rs) == LET RECURSIVE S(_) S(k) == IF k = 0 THEN 0 ELSE S(k-1) + rs[k].n IN S(Len(rs))
Acts(rs) == UNION { rs[k].a : k \in DOMAIN rs }
WalkConcat(xs) ==
  LET RECURSIVE Go(_)
      Go(i) == IF i > Len(xs) THEN R(<<>>, 0, {})
               ELSE LET x == xs[i]  w == Walk(x) IN
                    IF i = Len(xs) THEN R(<<w.e>>, w.n, w.a)
                    ELSE IF xs[i+1].op = "star" /\ CanMerge(x, xs[i+1].x)
                         THEN LET rest == Go(i+2) IN R(<<Plus(w.e)>> \o rest.e, w.n + 1 + rest.n, w.a \cup {"MergeStar"} \cup rest.a)
                    ELSE LET th == Threshold(x, xs[i+1])
                             run == IF th = 0 THEN 0 ELSE
                                      LET RECURSIVE Cnt(_) Cnt(j) == IF j > Len(xs) \/ Threshold(x, xs[j]) = 0 THEN 0 ELSE 1 + Cnt(j+1) IN Cnt(i+1)
                         IN IF th # 0 /\ run >= th
                            THEN LET rest == Go(i+1+run) IN R(<<Rep(w.e, ToString(run+1))>> \o rest.e, w.n + 1 + rest.n, w.a \cup {"RunLength"} \cup rest.a)
                            ELSE LET rest == Go(i+1) IN R(<<w.e>> \o rest.e, w.n + rest.n, w.a \cup rest.a)
  IN LET g == Go(1) IN R(MkCat(g.e), g.n, g.a)
WalkAlt(xs) ==
  IF AllChars(xs)
  THEN R(Cls(ReadClass([i \in DOMAIN xs |-> IF GuardAltMeta /\ xs[i].c \in ClassMeta THEN EscM(xs[i].c) ELSE xs[i]])), 1, {"AltToClass"})
                                                                         \* x|y|z => [xyz] (- and ] escaped), re-read as a class body
  ELSE LET x0 == IF Len(xs) = 2 THEN ConcatLiteral(xs[1]) ELSE <<>>
           y0 == IF Len(xs) = 2 THEN ConcatLiteral(xs[2]) ELSE <<>>
           swap == Len(x0) > Len(y0)
           x == IF swap THEN y0 ELSE x0
           y == IF swap THEN x0 ELSE y0
       IN IF Len(xs) = 2 /\ x0 # y0 /\ IsPrefix(x, y) /\ Len(y) - Len(x) = 1 /\ (GuardPrefixOrder => swap \/ x = <<>>)
          THEN R(MkCat(Chars(x) \o <<Quest(Ch(y[Len(y)]))>>), 1, {"FactorPrefix"})
          ELSE IF Len(xs) = 2 /\ x0 # y0 /\ IsSuffix(x, y) /\ Len(y) - Len(x) = 1 /\ ~(IsPrefix(x, y) /\ GuardPrefixOrder)
          THEN R(MkCat(<<Quest(Ch(y[1]))>> \o Chars(x)), 1, {"FactorSuffix"})
          ELSE LET ws == WalkSeq(xs) IN R(Alt([i \in DOMAIN ws |-> ws[i].e]), Sum(ws), Acts(ws))
WalkItems(items) ==
  LET ws == [k \in DOMAIN items |->
               IF GuardRangeBeforeDash /\ items[k].op = "rng" /\ k < Len(items) /\ items[k+1] = Ch("-") THEN R(items[k], 0, {}) ELSE Walk(items[k])]
      units == LET RECURSIVE F(_) F(k) == IF k > Len(ws) THEN <<>> ELSE
                    (IF ws[k].e.op = "cat" THEN ws[k].e.xs ELSE
                     IF ws[k].e.op = "rng" THEN <<Ch(ws[k].e.l), Ch("-"), Ch(ws[k].e.h)>> ELSE <<ws[k].e>>) \o F(k+1) IN F(1)
  IN R(ReadClass(units), Sum(ws), Acts(ws))
Walk(e) ==
  CASE e.op = "cat"   -> WalkConcat(e.xs)
    [] e.op = "alt"   -> WalkAlt(e.xs)
    [] e.op = "rng"   -> LET d == Code[e.h] - Code[e.l]
                             produced == IF d = 2 THEN {e.l, Mid(e.l), e.h} ELSE {e.l, e.h}
                             safe == (GuardRangeSafe /\ d <= 2) => produced \cap {"-", "]", "^"} = {} IN
                         CASE ~safe -> R(e, 0, {})
                           [] d = 0 -> R(Ch(e.l), 1, {"RangeExpand"})
                           [] d = 1 -> R(Cat(<<Ch(e.l), Ch(e.h)>>), 1, {"RangeExpand"})
                           [] d = 2 -> R(Cat(<<Ch(e.l), Ch(Mid(e.l)), Ch(e.h)>>), 1, {"RangeExpand"})
                           [] OTHER -> R(e, 0, {})
    [] e.op = "grp"   -> LET w == Walk(e.x) IN
                         IF e.x.op \in {"ch", "escc", "esck", "escm", "cls"} /\ ~(GuardBraceComma /\ e.x.op \in {"ch", "escc"} /\ e.x.c \in BraceChars)
                         THEN R(w.e, w.n + 1, w.a \cup {"GroupOfAtom"}) ELSE R(Grp(w.e), w.n, w.a)
    [] e.op = "flag"  -> LET w == Walk(e.x) IN
                         IF FlagPrefix THEN R(FlagGrp(w.e), w.n, w.a)
                         ELSE R(Cap(MkCat(<<Ch("i"), Ch(":"), w.e>>)), w.n, w.a)      \* "(i:x)" is a capture group around the text i:x
    [] e.op = "cap"   -> LET w == Walk(e.x) IN R(Cap(w.e), w.n, w.a)
    [] e.op = "ncap"  -> LET w == Walk(e.x) IN R(NCap(w.e), w.n, w.a)
    [] e.op = "rep"   -> LET w == Walk(e.x) IN
                         CASE e.r = "0,1" -> R(Quest(w.e), w.n + 1, w.a \cup {"RepeatNormalise"})
                           [] e.r = "1,"  -> R(Plus(w.e), w.n + 1, w.a \cup {"RepeatNormalise"})
                           [] e.r = "0,"  -> R(Star(w.e), w.n + 1, w.a \cup {"RepeatNormalise"})
                           [] e.r = "0"   -> IF GuardZeroCap /\ HasCap(e.x) THEN R(Rep(w.e, e.r), w.n, w.a)
                                             ELSE R(Empty, 1, {"RepeatZeroRemoval"})      \* the operand is not even walked
                           [] e.r = "1"   -> R(w.e, w.n + 1, w.a \cup {"RepeatOneRemoval"})
                           [] OTHER       -> R(Rep(w.e, e.r), w.n, w.a)
    [] e.op \in {"cls", "ncls"} ->
         LET t == ClsTable(e) IN
         IF t # Empty THEN R(t, 1, {"ClassTable"})
         ELSE IF e.op = "cls" /\ Len(e.items) = 1 /\ e.items[1].op = "ch" /\ e.items[1].c \notin NoUnwrap
         THEN R(e.items[1], 1, {"SingleElemClass"})
         ELSE IF e.op = "cls" /\ Len(e.items) = 1 /\ e.items[1].op \in {"escc", "esck"}
         THEN R(IF e.items[1].op = "escc" /\ e.items[1].c \in {".", "^"} THEN EscM(e.items[1].c) ELSE e.items[1], 1, {"SingleElemClass"})
         ELSE LET w == WalkItems(e.items) IN R(IF e.op = "cls" THEN Cls(w.e) ELSE NCls(w.e), w.n, w.a)
    [] e.op = "oct"   -> R(IF PadOctal THEN Oct3 ELSE Oct, 0, {})
    [] e.op = "escc"  -> IF e.c \in Removable THEN R(Ch(e.c), 1, {"EscapeRemoval"}) ELSE R(e, 0, {})
    [] e.op = "star"  -> LET w == Walk(e.x) IN R(Star(w.e), w.n, w.a)
    [] e.op = "plus"  -> LET w == Walk(e.x) IN R(Plus(w.e), w.n, w.a)
    [] e.op = "quest" -> LET w == Walk(e.x) IN R(Quest(w.e), w.n, w.a)
    [] e.op = "lazy"  -> IF GuardLazyRep /\ e.x.op = "rep" /\ e.x.r \in {"0", "1"} THEN R(e, 0, {})
                         ELSE LET w == Walk(e.x) IN
                              \* the printed form is the operand followed by `?`: read back as a lazy quantifier only if the operand still is one
                              IF w.e.op \in {"star", "plus", "quest", "rep"} THEN R(Lazy(w.e), w.n, w.a)
                              ELSE IF w.e = Empty THEN R(Ch("?"), w.n, w.a)                 \* a dangling ? (does not compile)
                              ELSE R(Quest(w.e), w.n, w.a)
    [] OTHER -> R(e, 0, {})
\* how a printed concatenation is read back: `{2}` after something repeatable is a repeat; \01 followed by 2 is the escape \012
RECURSIVE Reread(_)
RereadCat(xs) ==
  LET RECURSIVE G(_, _)
      G(k, acc) == IF k > Len(xs) THEN acc
                   ELSE IF acc # <<>> /\ k + 2 <= Len(xs) /\ xs[k] = Ch("{") /\ xs[k+1] = Ch("2") /\ xs[k+2] = Ch("}")
                        THEN G(k+3, SubSeq(acc, 1, Len(acc) - 1) \o <<Rep(acc[Len(acc)], "2")>>)
                   ELSE IF acc # <<>> /\ k + 4 <= Len(xs) /\ xs[k] = Ch("{") /\ xs[k+1] = Ch("2") /\ xs[k+2] = Ch(",") /\ xs[k+3] = Ch("2") /\ xs[k+4] = Ch("}")
                        THEN G(k+5, SubSeq(acc, 1, Len(acc) - 1) \o <<Rep(acc[Len(acc)], "2,2")>>)
                   ELSE IF acc # <<>> /\ xs[k] = Ch("?")                                   \* a ? left over by a dropped operand quantifies its left neighbour
                        THEN G(k+1, SubSeq(acc, 1, Len(acc) - 1) \o <<IF acc[Len(acc)].op \in {"star", "plus", "quest", "rep"}
                                                                     THEN Lazy(acc[Len(acc)]) ELSE Quest(acc[Len(acc)])>>)
                   ELSE IF k + 1 <= Len(xs) /\ xs[k] = Oct /\ xs[k+1] = Ch("2")
                        THEN G(k+2, Append(acc, EscM("n")))                  \* a newline: matches nothing of the alphabet
                        ELSE G(k+1, Append(acc, Reread(xs[k])))
  IN G(1, <<>>)
Reread(e) == CASE e.op = "cat" -> MkCat(RereadCat(e.xs))
               [] e.op = "alt" -> Alt([k \in DOMAIN e.xs |-> Reread(e.xs[k])])
               [] e.op \in {"grp", "flag", "cap", "ncap", "star", "plus", "quest", "lazy"} -> [e EXCEPT !.x = Reread(e.x)]
               [] e.op = "rep" -> Rep(Reread(e.x), e.r)
               [] OTHER -> e
\* two passes; an empty candidate string ends the pass loop exactly like "no score"
Simp(e) == LET p1 == Walk(e) IN
           IF p1.n = 0 \/ Show(p1.e) = <<>> THEN R(e, 0, {})
           ELSE LET r1 == Reread(p1.e)
                    p2 == Walk(r1)
                IN IF p2.n = 0 \/ Show(p2.e) = <<>> THEN R(r1, p1.n, p1.a) ELSE R(Reread(p2.e), p1.n + p2.n, p1.a \cup p2.a)
Simplify(e) == Simp(e).e

\* ---- matching: leftmost-first with numbered captures --------------------------------
RECURSIVE NCaps(_)
NCapsSeq(xs) == LET RECURSIVE S(_) S(k) == IF k = 0 THEN 0 ELSE S(k-1) + NCaps(xs[k]) IN S(Len(xs))
NCaps(e) == CASE e.op \in {"cap", "ncap"} -> 1 + NCaps(e.x)
              [] e.op \in {"grp", "flag", "star", "plus", "quest", "lazy", "rep"} -> NCaps(e.x)
              [] e.op \in {"cat", "alt"} -> NCapsSeq(e.xs)
              [] OTHER -> 0
RECURSIVE Names(_)
Names(e) == CASE e.op = "ncap" -> <<"n">> \o Names(e.x)
              [] e.op = "cap" -> <<"">> \o Names(e.x)
              [] e.op \in {"grp", "flag", "star", "plus", "quest", "lazy", "rep"} -> Names(e.x)
              [] e.op \in {"cat", "alt"} -> LET RECURSIVE S(_) S(k) == IF k > Len(e.xs) THEN <<>> ELSE Names(e.xs[k]) \o S(k+1) IN S(1)
              [] OTHER -> <<>>
ItemSet(it) == CASE it.op = "ch" -> {it.c}
                 [] it.op \in {"escm", "escc"} -> {it.c}
                 [] it.op = "esck" -> KSet(it.k)
                 [] it.op \in {"oct", "oct3"} -> {"SOH"}
                 [] it.op = "dot" -> Sym
                 [] it.op = "rng" -> { c \in Sym : Code[it.l] <= Code[c] /\ Code[c] <= Code[it.h] }
                 [] it.op = "posix" -> IF it.neg THEN Sym \ KSet(it.k) ELSE KSet(it.k)
AtomSet(e) == CASE e.op = "cls" -> UNION { ItemSet(e.items[k]) : k \in DOMAIN e.items }
                [] e.op = "ncls" -> Sym \ UNION { ItemSet(e.items[k]) : k \in DOMAIN e.items }
                [] OTHER -> ItemSet(e)
IsAtom(e) == e.op \in {"ch", "escm", "escc", "esck", "oct", "oct3", "dot", "cls", "ncls"}
FlatMap(seq, F(_)) == LET RECURSIVE G(_) G(k) == IF k > Len(seq) THEN <<>> ELSE F(seq[k]) \o G(k+1) IN G(1)
St(i, caps) == [i |-> i, caps |-> caps]
\* M(e, s, st, base): results in priority order; base = number of capture groups opened before e
RECURSIVE M(_, _, _, _)
MSeq(xs, s, st, base) ==
  LET RECURSIVE Go(_, _, _)
      Go(k, cur, b) == IF k > Len(xs) THEN <<cur>> ELSE FlatMap(M(xs[k], s, cur, b), LAMBDA nx : Go(k+1, nx, b + NCaps(xs[k])))
  IN Go(1, st, base)
Times(x, s, st, base, lo, hi, lazy) ==      \* x{lo,hi}; hi = -1 unbounded; optional iterations must consume
  LET RECURSIVE It(_, _)
      It(cur, k) == LET more == IF hi = -1 \/ k < hi
                                THEN FlatMap(M(x, s, cur, base), LAMBDA nx : IF nx.i > cur.i \/ k < lo THEN It(nx, k+1) ELSE <<>>)
                                ELSE <<>>
                        stop == IF k >= lo THEN <<cur>> ELSE <<>>
                    IN IF lazy THEN stop \o more ELSE more \o stop
  IN It(st, 0)
Bounds(r) == CASE r = "0" -> <<0, 0>> [] r = "1" -> <<1, 1>> [] r = "2" -> <<2, 2>> [] r = "3" -> <<3, 3>> [] r = "4" -> <<4, 4>>
               [] r = "5" -> <<5, 5>> [] r = "6" -> <<6, 6>> [] r = "0,1" -> <<0, 1>> [] r = "1," -> <<1, -1>> [] r = "0," -> <<0, -1>>
               [] r = "1,2" -> <<1, 2>> [] r = "2,2" -> <<2, 2>> [] OTHER -> <<9, 9>>
Quant(q, s, st, base, lazy) ==
  CASE q.op = "rep"   -> Times(q.x, s, st, base, Bounds(q.r)[1], Bounds(q.r)[2], lazy)
    [] q.op = "star"  -> Times(q.x, s, st, base, 0, -1, lazy)
    [] q.op = "plus"  -> Times(q.x, s, st, base, 1, -1, lazy)
    [] q.op = "quest" -> Times(q.x, s, st, base, 0, 1, lazy)
M(e, s, st, base) ==
  CASE IsAtom(e)      -> IF st.i <= Len(s) /\ s[st.i] \in AtomSet(e) THEN <<St(st.i + 1, st.caps)>> ELSE <<>>
    [] e.op \in {"grp", "flag"} -> M(e.x, s, st, base)
    [] e.op \in {"cap", "ncap"} ->
                         LET rs == M(e.x, s, st, base + 1)
                         IN [k \in DOMAIN rs |-> St(rs[k].i, [rs[k].caps EXCEPT ![base + 1] = <<st.i, rs[k].i>>])]
    [] e.op = "cat"   -> MSeq(e.xs, s, st, base)
    [] e.op = "alt"   -> LET RECURSIVE A(_, _) A(k, b) == IF k > Len(e.xs) THEN <<>> ELSE M(e.xs[k], s, st, b) \o A(k+1, b + NCaps(e.xs[k])) IN A(1, base)
    [] e.op \in {"star", "plus", "quest"} -> Quant(e, s, st, base, FALSE)
    [] e.op = "lazy"  -> Quant(e.x, s, st, base, TRUE)
    [] e.op = "rep"   -> Times(e.x, s, st, base, Bounds(e.r)[1], Bounds(e.r)[2], FALSE)
NoCaps(n) == [k \in 1..n |-> <<0, 0>>]
Find(e, s) == LET n == NCaps(e)
                  RECURSIVE F(_) F(i) == IF i > Len(s) + 1 THEN <<0, 0, NoCaps(n)>> ELSE
                      LET r == M(e, s, St(i, NoCaps(n)), 0) IN IF r # <<>> THEN <<i, r[1].i, r[1].caps>> ELSE F(i+1)
              IN F(1)

\* a shortest string the pattern matches (exported: the Go side also tries it and its one-character variations, which
\* matters for long patterns that no short subject can match)
RECURSIVE Wit(_)
WitSeq(xs) == LET RECURSIVE W(_) W(k) == IF k > Len(xs) THEN <<>> ELSE Wit(xs[k]) \o W(k+1) IN W(1)
Times_(w, n) == LET RECURSIVE T(_) T(k) == IF k = 0 THEN <<>> ELSE w \o T(k-1) IN T(n)
Wit(t) == CASE IsAtom(t) -> (LET S == AtomSet(t) IN IF S = {} THEN <<>> ELSE <<CHOOSE c \in S : TRUE>>)
            [] t.op \in {"grp", "flag", "cap", "ncap", "plus"} -> Wit(t.x)
            [] t.op \in {"star", "quest"} -> <<>>
            [] t.op = "lazy" -> Wit(t.x)
            [] t.op = "rep" -> Times_(Wit(t.x), IF Bounds(t.r)[1] = 9 THEN 1 ELSE Bounds(t.r)[1])
            [] t.op = "cat" -> WitSeq(t.xs)
            [] t.op = "alt" -> IF t.xs = <<>> THEN <<>> ELSE Wit(t.xs[1])
            [] OTHER -> <<>>

\* ---- subjects: strings over the characters a pattern mentions plus one foreign character ----------
RECURSIVE Ment(_)
Ment(e) == CASE e.op \in {"ch", "escm", "escc"} -> {e.c}
             [] e.op \in {"oct", "oct3"} -> {"SOH"}
             [] e.op \in {"esck", "posix"} -> {"2", " "}
             [] e.op = "rng" -> {e.l, e.h} \cup (LET S == { c \in Sym : Code[e.l] < Code[c] /\ Code[c] < Code[e.h] }
                                                  IN IF S = {} THEN {} ELSE {CHOOSE c \in S : TRUE})       \* one character strictly inside
             [] e.op = "dot" -> {}
             [] e.op \in {"cls", "ncls"} -> UNION { Ment(e.items[k]) : k \in DOMAIN e.items }
             [] e.op \in {"cat", "alt"} -> UNION { Ment(e.xs[k]) : k \in DOMAIN e.xs }
             [] OTHER -> Ment(e.x)
AlphaOf(e) == Ment(e) \cup Ment(Simplify(e)) \cup {"z"}          \* what the pattern and its rewrite mention, plus a foreign character
Strs(e) == LET A == AlphaOf(e) IN UNION { [1..n -> A] : n \in 0..(IF Cardinality(A) <= 3 THEN 3 ELSE 2) }

\* ---- enumeration -----------------------------------------------------------------------
Lits == IF Level # 2 THEN {"a", "-", "2"} ELSE {"a", "b", "-", "2", " "}
ChS == { Ch(c) : c \in Lits }
Atoms0 == ChS \cup {Dot, EscM("."), EscC(","), EscK("d"), Oct}
ItemsA == { Ch("a"), Ch("-"), Ch("{"), Ch("}"), Ch(","), Ch("."), Ch("]"), Rng(",", "-"), Rng("a", "b"), Rng("a", "a"), Rng("a", "c"), Rng("-", "a"), Rng("0", "9"),
            EscC(","), EscC("."), EscC("^"), EscM("-"), EscK("d"), EscK("s"), EscK("W"), Posix("d", FALSE), Posix("w", TRUE) }
ItemsB == ItemsA \cup { Ch("b"), Ch("2"), Rng("a", "z"), EscK("D"), EscK("S"), EscK("w"), Posix("s", FALSE), Posix("s", TRUE),
                        Posix("d", TRUE), Posix("w", FALSE), EscC(":") }
Items == IF Level # 2 THEN ItemsA ELSE ItemsB
Second == { Ch("a"), Ch("-"), Ch("^"), EscC(","), Ch("2") }
ClsSet == { Cls(<<r, Ch("-"), Ch("z")>>) : r \in { Rng("a", "c"), Rng("a", "b"), Rng("a", "a"), Rng("0", "9") } }
          \cup { NCls(<<Rng("a", "c"), Ch("-"), Ch("z")>>) }
          \cup { Cls(<<i>>) : i \in Items } \cup { NCls(<<i>>) : i \in Items \cup {Ch("^")} }
          \cup { Cls(<<i, j>>) : i \in Items \ {Ch("-")}, j \in Second } \cup { Cls(<<Ch("-"), j>>) : j \in Second \ {Ch("-")} }
          \cup { NCls(<<i, j>>) : i \in {Ch("a"), Rng("a", "b"), EscC(","), Ch("]")}, j \in {Ch("a"), Ch("-")} }
T0 == Atoms0 \cup ClsSet
Reps == {"0", "1", "2", "0,1", "1,", "0,", "1,2"}
Post(S) == { Star(x) : x \in S } \cup { Plus(x) : x \in S } \cup { Quest(x) : x \in S } \cup { Rep(x, r) : x \in S, r \in Reps }
LazyOf(S) == { Lazy(Star(x)) : x \in S } \cup { Lazy(Plus(x)) : x \in S } \cup { Lazy(Quest(x)) : x \in S }
             \cup { Lazy(Rep(x, r)) : x \in S, r \in Reps }
Wrapped == { Grp(x) : x \in T0 } \cup { Cap(x) : x \in Atoms0 } \cup { NCap(Ch("a")), Grp(Cat(<<Ch("a"), Ch("-")>>)), Grp(Alt(<<Ch("a"), Ch("-")>>))}
CapGroups == { Grp(Alt(<<Cap(Ch("a")), Ch("-")>>)), Grp(Cat(<<Cap(Ch("a")), Ch("-")>>)) }
FlagGroups == { FlagGrp(Ch("a")), FlagGrp(Cls(<<Rng("0", "9")>>)), FlagGrp(Cat(<<Ch("a"), Cls(<<Ch("-")>>)>>)), FlagGrp(Rep(Ch("a"), "1,")) }
\* literal pieces that complete a repeat when something between them is unwrapped or unescaped
BraceMid == { EscC(","), Grp(Ch(",")), Grp(EscC(",")), Cls(<<Ch(",")>>), Cls(<<EscC(",")>>) }
BraceTerms == { Cat(<<Ch("a"), Ch("{"), Ch("2"), x, Ch("2"), Ch("}")>>) : x \in BraceMid }
              \cup { Cat(<<Ch("a"), Ch("{"), Ch("2"), x>>) : x \in {Cls(<<Ch("}")>>), Grp(Ch("}"))} }
              \cup { Cat(<<Ch("a"), x, Ch("2"), Ch("}")>>) : x \in {Grp(Ch("{")), Cls(<<Ch("{")>>)} }
NullableWrapped == { Cap(Alt(<<Ch("a"), Empty>>)), Grp(Alt(<<Empty, Ch("a")>>)) }
Pairs == { Alt(<<x, y>>) : x, y \in ChS } \cup { Cat(<<x, y>>) : x, y \in ChS }
         \cup { Alt(<<x, Empty>>) : x \in ChS } \cup { Alt(<<Empty, x>>) : x \in ChS }
PostBase == IF Level # 2 THEN Atoms0 \cup { Cls(<<Ch("a")>>), Cls(<<Ch("{")>>), Cls(<<Ch("a"), Ch("-")>>), NCls(<<EscK("s")>>), Cls(<<Rng("a", "b")>>) } ELSE T0
T1 == T0 \cup Wrapped \cup NullableWrapped \cup Post(PostBase) \cup LazyOf(Atoms0) \cup Pairs
\* contexts that change how a rewritten neighbour is read back
CtxSeq == << Ch("a"), Ch("-"), Ch("2"), Ch("{"), Star(Ch("a")), Cap(Ch("a")), Rep(Cap(Ch("a")), "0"), Cls(<<Ch("a"), Ch("b")>>),
            Dot, Ch(" "), Grp(Ch("a")), Grp(Alt(<<Ch("a"), Ch("-")>>)), EscC(","), Oct >>
\* Slice = 0: every context (level 1: the first eight); Slice = k > 0: only the k-th context and nothing else (the thorough tier
\* runs the slices as separate TLC processes: initial states are computed on one thread)
Ctx == IF Slice = 0 THEN { CtxSeq[k] : k \in 1..(IF Level # 2 THEN 8 ELSE Len(CtxSeq)) } ELSE { CtxSeq[Slice] }
Sites == T1 \ Pairs
InCtx == { Cat(<<x, y>>) : x \in Ctx, y \in Sites } \cup { Cat(<<y, x>>) : x \in Ctx, y \in Sites }
\* long patterns with a long common head (many escapes: their quoted spelling is longer than 72 characters) and different tails
LongHead == [k \in 1..24 |-> IF k % 2 = 1 THEN EscK("d") ELSE EscK("s")]
LongTails == { <<Cls(<<Rng("0", "9")>>)>>, <<Cls(<<Rng("a", "b")>>)>>, <<Rep(Ch("a"), "1,")>>, <<Ch("a"), Star(Ch("a"))>>, <<Grp(Ch("a"))>>,
               <<Cls(<<Ch("a")>>)>>, <<Ch("a")>>, <<Rep(Ch("-"), "0,1")>> }
LongTerms == { Cat(LongHead \o t) : t \in LongTails }
Rest ==  LongTerms \cup FlagGroups \cup BraceTerms \cup { Cat(<<g, g>>) : g \in CapGroups } \cup { Cat(<<g, Star(g)>>) : g \in CapGroups }
      \cup { Cat(<<g, g, Ch("b")>>) : g \in CapGroups }
      \cup { Alt(<<x, y>>) : x \in {Ch("a"), Ch("-"), Cap(Ch("a"))}, y \in Sites \ ChS }
      \cup { Alt(<<x, y, z>>) : x, y, z \in ChS }
      \cup { Cat(<<Ch("a"), x, Ch("2"), Ch("}")>>) : x \in ClsSet }
      \cup { Cat(<<x, x, x, x, x>>) : x \in {Ch("a"), Ch(" "), Dot} } \cup { Cat(<<x, x, x, x>>) : x \in {Ch("a"), Dot} }
      \cup { Cat(<<x, x, y>>) : x \in ClsSet \cup {Ch(" "), EscM("."), EscC(","), Grp(Cat(<<Ch("a"), Ch("-")>>))}, y \in {Ch("b"), Star(Ch("a"))} }
      \cup { Cat(<<x, x, x>>) : x \in {EscM("."), EscC(","), EscK("d"), Dot, Oct} }
      \cup { Cat(<<x, Star(x)>>) : x \in T0 \cup { Grp(Cat(<<Ch("a"), Ch("-")>>)) } }
      \cup Post(Wrapped) \cup Post({ Cap(x) : x \in {Cls(<<Ch("a"), Ch("b")>>), Alt(<<Ch("a"), Ch("-")>>)} })
      \cup { Alt(<<Cat(<<Ch("a"), Ch("b")>>), Cat(<<Ch("a"), Ch("b"), c>>)>>) : c \in ChS }
      \cup { Alt(<<Cat(<<Ch("a"), Ch("b"), c>>), Cat(<<Ch("a"), Ch("b")>>)>>) : c \in ChS }
      \cup { Alt(<<Cat(<<c, Ch("a"), Ch("b")>>), Cat(<<Ch("a"), Ch("b")>>)>>) : c \in ChS }
      \cup { Alt(<<Cat(<<Ch("a"), Ch("b")>>), Cat(<<c, Ch("a"), Ch("b")>>)>>) : c \in ChS }
      \cup { Cat(<<Grp(Alt(<<Cat(<<Ch("a"), Ch("b")>>), Cat(<<Ch("a"), Ch("b"), Ch("a")>>)>>)), c>>) : c \in ChS }
T2 == IF Slice > 0 THEN InCtx ELSE T1 \cup InCtx \cup Rest
\* canonical: printing and re-parsing gives the same tree (no cat under cat, no alt under alt or cat)
RECURSIVE Canon(_)
Canon(e) == CASE e.op = "cat" -> /\ \A k \in DOMAIN e.xs : e.xs[k].op \notin {"cat", "alt"} /\ Canon(e.xs[k])
                                 /\ \A k \in 1..(Len(e.xs) - 1) : ~(e.xs[k] = Oct /\ e.xs[k+1] = Ch("2"))      \* \012 is another escape
              [] e.op = "alt" -> \A k \in DOMAIN e.xs : e.xs[k].op # "alt" /\ Canon(e.xs[k])
              [] e.op \in {"cls", "ncls"} -> ValidItems(e.items)
              [] e.op \in {"grp", "flag", "cap", "ncap", "star", "plus", "quest", "lazy", "rep"} -> Canon(e.x)
              [] OTHER -> TRUE
\* ---- simulation: random terms of a richer grammar (tlc -simulate); every step draws a new term ------------------------
The(S) == CHOOSE x \in S : TRUE
RECURSIVE Nullable(_)
Nullable(t) == CASE t.op \in {"star", "quest"} -> TRUE
                 [] t.op = "lazy" -> Nullable(t.x)
                 [] t.op = "plus" -> Nullable(t.x)
                 [] t.op = "rep" -> Bounds(t.r)[1] = 0 \/ Nullable(t.x)
                 [] t.op \in {"grp", "flag", "cap", "ncap"} -> Nullable(t.x)
                 [] t.op = "cat" -> \A k \in DOMAIN t.xs : Nullable(t.xs[k])
                 [] t.op = "alt" -> \E k \in DOMAIN t.xs : Nullable(t.xs[k])
                 [] OTHER -> FALSE
IsQuant(t) == t.op \in {"star", "plus", "quest", "lazy", "rep"}
Operand(t) == IF t.op \in {"cat", "alt"} \/ IsQuant(t) THEN Grp(t) ELSE t
Quantify(t, q) == LET x == The({Operand(t)}) IN
  IF Nullable(x) THEN x
  ELSE CASE q = 1 -> Star(x) [] q = 2 -> Plus(x) [] q = 3 -> Quest(x) [] q = 4 -> Lazy(Star(x)) [] q = 5 -> Lazy(Quest(x))
         [] q = 6 -> Rep(x, "0") [] q = 7 -> Rep(x, "1") [] q = 8 -> Rep(x, "2") [] q = 9 -> Rep(x, "0,1") [] q = 10 -> Rep(x, "1,")
         [] q = 11 -> Rep(x, "0,") [] OTHER -> Rep(x, "1,2")
CatOf(a, b) == LET u == IF a.op = "alt" THEN Grp(a) ELSE a
                   v == IF b.op = "alt" THEN Grp(b) ELSE b IN MkCat(<<u, v>>)
AltOf(a, b) == Alt((IF a.op = "alt" THEN a.xs ELSE <<a>>) \o (IF b.op = "alt" THEN b.xs ELSE <<b>>))
\* pseudo-random terms: TLC resets its own random source for every state, so the draws come from a small linear congruential
\* generator over the term's seed (all products stay below 2^31); a term is a pure function of its seed
L(r) == ((r * 75) + 74) % 65537
Rt(r) == ((r * 171) + 11) % 30269
LitSeq == << Ch("a"), Ch("b"), Ch("-"), Ch("2"), Ch(" "), Ch("{"), Ch("}"), Ch(","), Dot, EscM("."), EscC(","), EscC(":"), EscK("d"), EscK("s"), EscK("W"), Oct >>
ItemSeq == << Ch("a"), Ch("b"), Ch("-"), Ch("2"), Ch("{"), Ch("}"), Ch(","), Ch("."), Ch("]"), Rng("a", "b"), Rng("a", "a"), Rng("a", "c"), Rng("a", "z"),
              Rng("-", "a"), Rng(",", "-"), Rng("0", "9"), EscC(","), EscC("."), EscC("^"), EscC(":"), EscM("-"), EscK("d"), EscK("D"), EscK("s"),
              EscK("S"), EscK("w"), EscK("W"), Posix("d", FALSE), Posix("d", TRUE), Posix("w", FALSE), Posix("w", TRUE), Posix("s", FALSE), Posix("s", TRUE) >>
SecondSeq == << Ch("a"), Ch("-"), Ch("^"), EscC(","), Ch("2"), Rng("a", "b") >>
Pick(seq, r) == seq[(r % Len(seq)) + 1]
PickAtom(r) ==
  LET k == r % 10
      i == Pick(ItemSeq, r \div 10)
      j == Pick(SecondSeq, r \div 330)
      pairOK == ~(i = Ch("-") /\ j = Ch("-")) /\ ~(i.op = "rng" /\ j = Ch("-") /\ FALSE)
  IN CASE k <= 3 -> Pick(LitSeq, r \div 10)
       [] k <= 5 -> Cls(<<i>>)
       [] k <= 7 -> IF pairOK THEN Cls(<<i, j>>) ELSE Cls(<<i>>)
       [] k = 8 -> NCls(<<i>>)
       [] OTHER -> IF pairOK THEN NCls(<<i, j>>) ELSE NCls(<<i>>)
RECURSIVE Gen(_, _)
Gen(d, r) ==
  LET k == ((r \div 7) % 14) + 1
      q == ((r \div 3) % 12) + 1
      a == L(r)
      b == Rt(r) + 1
  \* sub-terms are bound through singleton sets: TLC evaluates operator arguments lazily, i.e. once per use
  IN IF d = 0 THEN PickAtom(a)
     ELSE CASE k <= 3 -> PickAtom(a)
            [] k = 4 -> Grp(Gen(d-1, a))
            [] k = 5 -> Cap(Gen(d-1, a))
            [] k \in {6, 7} -> The({ Quantify(x, q) : x \in {Gen(d-1, a)} })
            [] k \in 8..11 -> The({ CatOf(x, y) : x \in {Gen(d-1, a)}, y \in {Gen(d-1, b)} })
            [] k \in 12..13 -> The({ AltOf(x, y) : x \in {Gen(d-1, a)}, y \in {Gen(d-1, b)} })
            [] OTHER -> FlagGrp(Gen(d-1, a))
SimTerms == { Gen(3, L(L(SimOff + i))) : i \in 1..SimN }
Focus == T1 \cup { Cat(<<Ch("a"), Lazy(Rep(Ch("-"), "1"))>>) } \cup FlagGroups \cup BraceTerms \cup { Cat(<<g, g>>) : g \in CapGroups } \cup { Cat(<<Ch("a"), x, Ch("2"), Ch("}")>>) : x \in ClsSet } \cup Post(Wrapped)
         \cup { Alt(<<Cat(<<Ch("a"), Ch("b")>>), Cat(<<Ch("a"), Ch("b"), c>>)>>) : c \in ChS }
         \cup { Alt(<<x, y, z>>) : x, y, z \in ChS } \cup { Cat(<<Rep(Cap(Ch("a")), "0"), Ch("-")>>), Cat(<<Rep(Oct, "1"), Ch("2")>>) }
Terms == { t \in (IF Level = 0 THEN Focus ELSE IF Level = 3 THEN SimTerms ELSE T2) : Canon(t) /\ Reread(t) = t /\ Len(Show(t)) <= 60 }

Same(t) == LET o == Simplify(t) IN
           NCaps(o) = NCaps(t) /\ Names(o) = Names(t) /\ \A s \in Strs(t) : Find(o, s) = Find(t, s)

VARIABLES e, pat, out, acts, same, ncap, alpha, finds, ctxt, wit
vars == <<e, pat, out, acts, same, ncap, alpha, finds, ctxt, wit>>
\* context tags of a term (used to classify findings): literal brace characters that are not a repeat
RECURSIVE HasBraceLit(_)
HasBraceLit(t) == CASE t.op \in {"ch", "escc", "escm"} -> t.c \in {"{", "}"}
                    [] t.op \in {"cls", "ncls"} -> \E k \in DOMAIN t.items : HasBraceLit(t.items[k])
                    [] t.op \in {"cat", "alt"} -> \E k \in DOMAIN t.xs : HasBraceLit(t.xs[k])
                    [] t.op \in {"grp", "flag", "cap", "ncap", "star", "plus", "quest", "lazy", "rep"} -> HasBraceLit(t.x)
                    [] OTHER -> FALSE
\* the term is chosen in the initial state and evaluated in one step (TLC computes initial states on one thread, steps on all)
Init == e \in Terms /\ pat = <<>> /\ out = <<>> /\ acts = {} /\ same = TRUE /\ ncap = -1 /\ alpha = {} /\ finds = <<>> /\ ctxt = {} /\ wit = <<>>
Evaluate == /\ ncap = -1
            /\ pat' = Show(e)
            /\ LET r == Simp(e) IN out' = Show(r.e) /\ acts' = r.a
            /\ same' = Same(e)
            /\ ncap' = NCaps(e)
            /\ alpha' = AlphaOf(e)
            /\ ctxt' = IF HasBraceLit(e) THEN {"brace-literal"} ELSE {}
            /\ wit' = Wit(e)
            /\ finds' = IF ExportFinds THEN [s \in Strs(e) |-> Find(e, s)] ELSE <<>>
            /\ UNCHANGED e
Next == Evaluate
Spec == Init /\ [][Next]_vars

SameLanguage == same
TypeOK == same \in BOOLEAN
=============================================================================
