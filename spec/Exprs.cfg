SPECIFICATION Spec
CONSTANTS
  IncDecFloatGuard = TRUE
  DecimalOnly = FALSE
  Depth = 1
INVARIANTS Preserves
