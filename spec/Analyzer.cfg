SPECIFICATION Spec
CONSTANTS
  Passes = {1, 2, 3}
  InitFails = FALSE
  LatchReturnsError = FALSE
INVARIANTS NoPanic CfgOrErr NoPartial NoParamRace WrittenOnce MutexOK
