------------------------------- MODULE Params -------------------------------
(***************************************************************************)
(* Part 1 (SpecFlow): how a parameter value travels from the user to the   *)
(* checker constructor on the three entry paths:                            *)
(*   cli / twin  Registered(default) -> BindFlag (flag default := current   *)
(*               value) -> Parse (flag := given value) -> Assign (value :=  *)
(*               flag) -> Construct (reads value)                           *)
(*   analyzer    BindFlag at package initialisation; Assign in newGocritic  *)
(*   integrator  Override(value := v) on the shared CheckerParam ->         *)
(*               Construct                                                  *)
(* for an int and a bool parameter.  Used = Configured at Construct.        *)
(* AssignBools = FALSE is a what-if (assigning ints but not bools).         *)
(*                                                                          *)
(* Part 2 (SpecThreshold): the documented threshold predicates, every       *)
(* (checker, measure m, threshold n) an initial state with the prediction.  *)
(***************************************************************************)
EXTENDS Naturals, Sequences, FiniteSets, TLC
CONSTANTS MaxM, AssignBools

Paths == {"cli", "analyzer", "override"}
Given == {"notGiven", "v1", "v2"}                 \* what the user supplies for a parameter
VARIABLES path, giveI, giveB,                      \* the case
          pc, valI, valB, flagI, flagB, usedI, usedB,
          tc, tm, tn, tpred                        \* threshold case
fvars == <<path, giveI, giveB, pc, valI, valB, flagI, flagB, usedI, usedB>>
tvars == <<tc, tm, tn, tpred>>
vars == <<fvars, tvars>>

Val(g, dflt) == IF g = "notGiven" THEN dflt ELSE g
InitFlow == /\ path \in Paths /\ giveI \in Given /\ giveB \in Given
            /\ pc = "registered" /\ valI = "default" /\ valB = "default" /\ flagI = "unbound" /\ flagB = "unbound"
            /\ usedI = "none" /\ usedB = "none"
            /\ tc = "none" /\ tm = 0 /\ tn = 0 /\ tpred = FALSE
BindFlag == /\ pc = "registered" /\ path \in {"cli", "analyzer"}
            /\ flagI' = valI /\ flagB' = valB /\ pc' = "bound"
            /\ UNCHANGED <<path, giveI, giveB, valI, valB, usedI, usedB, tvars>>
Parse == /\ pc = "bound" /\ flagI' = Val(giveI, flagI) /\ flagB' = Val(giveB, flagB) /\ pc' = "parsed"
         /\ UNCHANGED <<path, giveI, giveB, valI, valB, usedI, usedB, tvars>>
Assign == /\ pc = "parsed" /\ valI' = flagI /\ valB' = (IF AssignBools THEN flagB ELSE valB) /\ pc' = "assigned"
          /\ UNCHANGED <<path, giveI, giveB, flagI, flagB, usedI, usedB, tvars>>
Override == /\ pc = "registered" /\ path = "override"
            /\ valI' = Val(giveI, valI) /\ valB' = Val(giveB, valB) /\ pc' = "assigned"
            /\ UNCHANGED <<path, giveI, giveB, flagI, flagB, usedI, usedB, tvars>>
Construct == /\ pc = "assigned" /\ usedI' = valI /\ usedB' = valB /\ pc' = "constructed"
             /\ UNCHANGED <<path, giveI, giveB, valI, valB, flagI, flagB, tvars>>
NextFlow == BindFlag \/ Parse \/ Assign \/ Override \/ Construct
SpecFlow == InitFlow /\ [][NextFlow]_vars
UsedIsConfigured == pc = "constructed" => (usedI = Val(giveI, "default") /\ usedB = Val(giveB, "default"))

\* ---- thresholds -------------------------------------------------------------------
\* exact: the documentation fixes the boundary; step: only monotone single-step behaviour is required
Exact == {"hugeParam", "rangeValCopy", "rangeExprCopy", "tooManyResultsChecker", "nestingReduce"}
Step == {"ifElseChain", "commentedOutCode"}
Reports(c, m, n) == IF c = "tooManyResultsChecker" THEN m > n ELSE m >= n
InitThreshold == /\ tc \in Exact /\ tm \in 1..MaxM /\ tn \in 0..(MaxM + 1) /\ tpred = Reports(tc, tm, tn)
                 /\ path = "override" /\ giveI = "notGiven" /\ giveB = "notGiven" /\ pc = "constructed"
                 /\ valI = "default" /\ valB = "default" /\ flagI = "unbound" /\ flagB = "unbound" /\ usedI = "default" /\ usedB = "default"
SpecThreshold == InitThreshold /\ [][UNCHANGED vars]_vars
\* stricter threshold never removes, laxer never adds; boundary exactly where documented
Monotone == \A n2 \in 0..(MaxM + 1) : (tn <= n2 /\ Reports(tc, tm, n2)) => Reports(tc, tm, tn)
Boundary == IF tc = "tooManyResultsChecker" THEN (Reports(tc, tm, tm - 1) /\ ~Reports(tc, tm, tm))
            ELSE (Reports(tc, tm, tm) /\ ~Reports(tc, tm, tm + 1))
=============================================================================
