"""Analyzer.tla design runs and recorded / race runs of the real analyzer through the x/tools driver (C04, C19, C08)."""
import json
import os

import vlib

ACFG = """SPECIFICATION Spec
CONSTANTS
  Passes = {%s}
  InitFails = %s
  LatchSkips = %s
  UnlockAlways = TRUE
INVARIANTS %s
"""
ALIVE = """SPECIFICATION LiveSpec
CONSTANTS
  Passes = {%s}
  InitFails = %s
  LatchSkips = TRUE
  UnlockAlways = %s
PROPERTIES AllReturn
"""
AINV = "NoPanic CfgOrErr NoPartial NoParamRace WrittenOnce MutexOK ErrReportedOnce"


def design(ctx, passes=3):
    ps = ", ".join(str(i) for i in range(1, passes + 1))
    out = {}
    r = ctx.tlc("Analyzer", cfg_text=ACFG % (ps, "FALSE", "TRUE", AINV), workers=4, timeout=300, expect="ok")
    out["initOK"] = r.distinct
    r = ctx.tlc("Analyzer", cfg_text=ACFG % (ps, "TRUE", "TRUE", AINV), workers=4, timeout=300, expect="ok")
    out["initFails_latchSkips"] = r.distinct
    r = ctx.tlc("Analyzer", cfg_text=ACFG % (ps, "TRUE", "FALSE", AINV), workers=4, timeout=300, expect="violation")
    out["whatif_latchReturnsNeither"] = r.violated
    # liveness: every pass returns; a latch path that keeps the mutex blocks every later pass
    for fails in ("FALSE", "TRUE"):
        r = ctx.tlc("Analyzer", cfg_text=ALIVE % (ps, fails, "TRUE"), workers=4, timeout=300, expect="ok")
        out["liveness_initFails_%s" % fails] = r.distinct
    out["whatif_latchKeepsMutex"] = ctx.tlc("Analyzer", cfg_text=ALIVE % (ps, "TRUE", "FALSE"), workers=4, timeout=300, expect="violation").violated
    return out


def analyze(ctx, wdir, flags="", sequential=False, trace=None, race=False, repeat=1, init_embedded=False, patterns="./...", tests=True):
    outp = ctx.path("an", "out_%d.json" % len(os.listdir(os.path.dirname(ctx.path("an", "x")))))
    args = ["analyze", "-dir", wdir, "-patterns", patterns, "-out", outp, "-repeat", str(repeat)]
    if flags:
        args += ["-flags", flags]
    if sequential:
        args += ["-sequential"]
    if trace:
        args += ["-trace", trace]
    if init_embedded:
        args += ["-init-embedded"]
    if not tests:
        args += ["-tests=false"]
    r = ctx.run_vh(args, race=race, check=False, env={"GORACE": "halt_on_error=0"}, timeout=3000)
    res = json.load(open(outp)) if os.path.exists(outp) else None
    return r, res


def concurrent_runs(ctx, w, thorough):
    """C04: parallel passes vs sequential passes (diagnostics equal, no race report), recorded run validated by TraceAnalyzer."""
    out = {"traces": 0, "events": 0, "race_runs": 0}
    tf = ctx.spec_path("an_par.ndjson")
    r, par = analyze(ctx, w["dir"], flags="enable-all=true", trace=tf)
    r2, seq = analyze(ctx, w["dir"], flags="enable-all=true", sequential=True)
    if par is None or seq is None:
        raise vlib.Infra("analyzer run failed: %s %s" % (r.stderr[-1500:], r2.stderr[-1500:]))
    dp, ds = par["runs"][0].get("diags"), seq["runs"][0].get("diags")
    if par["runs"][0].get("panic") or seq["runs"][0].get("panic"):
        ctx.fail("AnalyzerPanic", "analyzer panicked: %s" % (par["runs"][0].get("panic") or seq["runs"][0].get("panic")), {})
    elif dp != ds:
        ctx.fail("AnalyzerParallelDiffers", "diagnostics of parallel passes differ from sequential passes (%d vs %d)" % (len(dp or []), len(ds or [])), {})
    if not ds:
        raise vlib.Infra("analyzer produced no diagnostics on the workspace")
    out["diagnostics"] = len(ds)
    ok, bad, st = ctx.validate_trace("TraceAnalyzer", tf, chunks=1, env={"INITFAILS": "0"})
    n = sum(1 for _ in open(tf))
    out["traces"] += 1
    out["events"] += n
    if not ok:
        line = open(tf).read().splitlines()[bad - 1] if bad and bad <= n else "<end of trace>"
        ctx.fail("AnalyzerTraceRejected", "TraceAnalyzer rejects the recorded parallel run at line %s: %s" % (bad, line), {"line": bad, "event": line})
    # race detector: parallel passes, no recorder
    for k in range(2 if thorough else 1):
        rr, res = analyze(ctx, w["dir"], flags="enable-all=true", race=True, repeat=12 if thorough else 6)
        out["race_runs"] += 1
        if "DATA RACE" in rr.stderr:
            i = rr.stderr.index("DATA RACE")
            ctx.fail("DataRace analyzer", "race detector report with parallel analyzer passes: %s" % rr.stderr[i:i + 1500], {})
        elif res is None:
            raise vlib.Infra("race-built analyzer run failed: %s" % rr.stderr[-1500:])
        elif res["runs"][0].get("diags") != ds:
            ctx.fail("AnalyzerParallelDiffers race-build", "race-built parallel run differs from sequential run", {})
    # twin packages: the example files of every checker in two packages, so that two instances of every checker work on the same
    # kind of subject at the same time (state shared between instances shows up as a race or as a differing result)
    tw = twin_workspace(ctx, every=1 if thorough else 6)
    r3, seq3 = analyze(ctx, tw, flags="enable-all=true", sequential=True, tests=False)
    rr3, par3 = analyze(ctx, tw, flags="enable-all=true", race=True, repeat=2, tests=False)
    out["twin_packages"] = len(os.listdir(tw)) - 1
    if "DATA RACE" in rr3.stderr:
        k = rr3.stderr.index("DATA RACE")
        ctx.fail("DataRace analyzer", "race detector report with parallel analyzer passes over twin packages: %s" % rr3.stderr[k:k + 1500], {})
    elif seq3 is None or par3 is None:
        raise vlib.Infra("analyzer run on the twin workspace failed: %s %s" % (r3.stderr[-800:], rr3.stderr[-800:]))
    elif par3["runs"][0].get("panic"):
        ctx.fail("AnalyzerPanic", "analyzer panicked on the twin workspace: %s" % par3["runs"][0]["panic"], {})
    elif any(run.get("diags") != seq3["runs"][0].get("diags") for run in par3["runs"]):
        ctx.fail("AnalyzerParallelDiffers twin", "parallel passes over twin packages differ from sequential passes", {})
    return out


def twin_workspace(ctx, every=1):
    """Every example directory of the repository (quick tier: every sixth, rotated by the seed) twice (a/b) in one module;
    directories that do not build on their own are left out."""
    import re
    import shutil
    import subprocess
    d = os.path.join(ctx.scratch, "twin_ws")
    if os.path.exists(d):
        return d
    os.makedirs(d)
    open(os.path.join(d, "go.mod"), "w").write("module example.com/twin\n\ngo 1.21\n")
    td = os.path.join(vlib.REPO, "checkers", "testdata")
    for idx, name in enumerate(sorted(os.listdir(td))):
        src = os.path.join(td, name)
        if name.startswith("_") or not os.path.isdir(src) or idx % every != ctx.seed % every:
            continue
        files = [f for f in os.listdir(src) if f.endswith(".go") and not f.endswith("_test.go")]
        if not files or any(os.path.isdir(os.path.join(src, f)) for f in os.listdir(src)):
            continue
        for suffix in ("a", "b"):
            pd = os.path.join(d, "%s_%s" % (name.lower(), suffix))
            os.makedirs(pd)
            for f in files:
                txt = open(os.path.join(src, f)).read()
                txt = re.sub(r"^package \w+", "package %s%s" % (re.sub(r"\W", "", name.lower()), suffix), txt, count=1, flags=re.M)
                open(os.path.join(pd, f), "w").write(txt)
    for attempt in range(6):
        r = subprocess.run(["go", "build", "./..."], cwd=d, env=vlib.goenv(), capture_output=True, text=True)
        if r.returncode == 0:
            break
        bad = set(re.findall(r"^# example\.com/twin/(\S+)", r.stderr, re.M)) | set(re.findall(r"^(\w+)/\S+\.go:\d+", r.stderr, re.M))
        if not bad:
            raise vlib.Infra("twin workspace does not build: " + r.stderr[-800:])
        for b in bad:
            shutil.rmtree(os.path.join(d, b), ignore_errors=True)
    else:
        raise vlib.Infra("twin workspace does not build after pruning: " + r.stderr[-800:])
    if len(os.listdir(d)) < 60 // every:
        raise vlib.Infra("twin workspace has only %d packages" % (len(os.listdir(d)) - 1))
    return d


WCFG = """SPECIFICATION WSpec
CONSTANTS
  Memo = %s
  VariantDep = %s
INVARIANTS Faithful NothingForeign Complete
CHECK_DEADLOCK FALSE
"""
WLIVE = """SPECIFICATION WLive
CONSTANTS
  Memo = FALSE
  VariantDep = TRUE
PROPERTIES AllDelivered
CHECK_DEADLOCK FALSE
"""


def work_design(ctx):
    """AnalyzerWork.tla on the bounded instance: the work loop is faithful; a table of remembered diagnostics keyed by the
    syntax tree is harmless while verdicts do not depend on the variant and breaks Faithful as soon as one does."""
    out = {}
    for memo, dep, expect in (("FALSE", "FALSE", "ok"), ("FALSE", "TRUE", "ok"), ("TRUE", "FALSE", "ok"), ("TRUE", "TRUE", "violation")):
        r = ctx.tlc("AnalyzerWorkMC", cfg_text=WCFG % (memo, dep), workers=2, timeout=300, deadlock=True, expect=expect)
        out["memo_%s_variantdep_%s" % (memo, dep)] = r.violated if expect == "violation" else r.distinct
    out["liveness"] = ctx.tlc("AnalyzerWorkMC", cfg_text=WLIVE, workers=2, timeout=300, deadlock=True, expect="ok").distinct
    return out


def variant_runs(ctx, runs=2, flags="enable-all=true", sequential_too=True):
    """The work loop of every pass over corpus/variants (a package whose in-package test file changes method sets, so that
    caseOrder, redundantSprint and preferStringWriter say different things about the SAME file in `p` and `p [p.test]`):
    recorded through the linter and analyzer hooks, validated by TraceAnalyzerWork; what the driver holds for a pass must be
    what newly constructed checkers say about that pass' own variant (Verdict of the design model)."""
    import shutil
    out = {"design": work_design(ctx), "runs": 0, "events": 0, "passes": 0, "variant_dependent_verdicts": 0, "drift": 0}
    wsd = os.path.join(ctx.scratch, "variants_ws")
    if not os.path.exists(wsd):
        shutil.copytree(os.path.join(vlib.VERIF, "corpus", "variants"), wsd)
    modes = [False] * runs + ([True] if sequential_too else [])
    for k, seq in enumerate(modes):
        tf = ctx.spec_path("an_work_%d.ndjson" % k)
        outp = ctx.path("an", "work_%d.json" % k)
        args = ["analyze", "-dir", wsd, "-out", outp, "-work", tf, "-init-embedded", "-flags", flags]
        if seq:
            args.append("-sequential")
        r = ctx.run_vh(args, check=False, timeout=1200)
        if not os.path.exists(tf + ".refs") or not os.path.exists(outp):
            raise vlib.Infra("recorded analyzer run over corpus/variants failed: %s" % r.stderr[-1500:])
        res = json.load(open(outp))
        if res["runs"][0].get("panic"):
            ctx.fail("AnalyzerPanic", "analyzer panicked on corpus/variants: %s" % res["runs"][0]["panic"], {})
            continue
        os.replace(tf + ".refs", ctx.spec_path("an_refs_%d.ndjson" % k))
        events = [json.loads(l) for l in open(tf)]
        refs = [json.loads(l) for l in open(ctx.spec_path("an_refs_%d.ndjson" % k))]
        checkers = refs[0]["checkers"]
        files_of = {e["pass"]: e["files"] for e in events if e["ev"] == "WBegin"}
        pkg_of = {e["pass"]: e["pkg"] for e in events if e["ev"] == "WDeliver"}
        verdict = {(x["pass"], x["file"], x["checker"]): x["ws"] for x in refs[1:]}
        # vacuity: the corpus must contain a file whose verdict depends on the variant
        dep = 0
        for (p, f, c), ws in verdict.items():
            for q in files_of:
                if q != p and f in files_of[q] and verdict.get((q, f, c), []) != ws:
                    dep += 1
        if dep == 0:
            raise vlib.Infra("corpus/variants shows no variant-dependent verdict (AnalyzerWorkMC: the memo what-if is then invisible)")
        out["variant_dependent_verdicts"] = dep
        delivered = {e["pass"]: e["ds"] for e in events if e["ev"] == "WDeliver"}
        bad = 0
        for p, files in sorted(files_of.items()):
            exp = [d for f in files for c in checkers for d in verdict.get((p, f, c), [])]
            got = delivered.get(p)
            if got is None:
                continue  # reported by AllDelivered below
            if got != exp:
                bad += 1
                foreign = [d for d in got if d not in exp]
                lost = [d for d in exp if d not in got]
                what = ("foreign (true of another build variant only): %s" % foreign[:2]) if foreign else \
                       ("lost: %s" % lost[:2]) if lost else "same diagnostics in another order"
                kind = "foreign" if foreign else "lost" if lost else "order"
                ctx.fail("VariantDiagnosticsNotOwn %s" % kind,
                         "the diagnostics the driver holds for pass %s (%d) are not what fresh checkers say about that variant (%d); %s"
                         % (pkg_of.get(p, p), len(got), len(exp), what), {"pass": pkg_of.get(p), "foreign": foreign[:10], "lost": lost[:10]})
        ok, badline, st = ctx.validate_trace("TraceAnalyzerWork", tf, chunks=1, env={"REFS": "an_refs_%d.ndjson" % k})
        out["runs"] += 1
        out["events"] += len(events)
        out["passes"] += len(files_of)
        if not ok and bad == 0:
            # the loop is organised differently but every pass delivered its own verdicts: drift of the model, not a verdict
            out["drift"] += 1
            line = open(tf).read().splitlines()[badline - 1][:300] if badline and badline <= len(events) else "<end of trace>"
            ctx.notes.append("TraceAnalyzerWork does not accept the recorded work loop at line %s (%s) although every pass delivered its own verdicts" % (badline, line))
    return out
