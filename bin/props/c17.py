"""C17 - shipped rules equal their compiled source; each group is a documented checker.

Spec: RegistryFacts.tla states the equalities (Shipped, OneCheckerPerGroup, DocsExact, MarksAgree) over facts extracted from the
current tree; TLC evaluates them in a single state. The two transitions of the build pipeline are REPLAYED on the repository's
own generators in a scratch copy of the tree: `go run ./rules/precompile.go` (exactly as go:generate runs it) and
cmd/makedocs; their outputs are compared byte for byte with checkers/rulesdata/rulesdata.go and docs/overview.md.
Honest note: the TLA+ contribution here is only the statement of the invariants; the decision is the regeneration diff.
"""
import hashlib
import json
import os
import re
import shutil
import subprocess

import vlib

TAGS4 = {"experimental", "opinionated", "performance", "security"}


def q(s):
    return '"' + s.replace("\\", "\\\\").replace('"', '\\"').replace("\n", "\\n").replace("\t", "\\t") + '"'


def tset(xs):
    return "{" + ", ".join(xs) + "}"


def run(ctx):
    # facts
    regp, rfp = ctx.path("registry.json"), ctx.path("rulefacts.json")
    ctx.run_vh(["registry", "-out", regp])
    ctx.run_vh(["rulefacts", "-out", rfp])
    reg = json.load(open(regp))["checkers"]
    groups = json.load(open(rfp))["groups"]

    # replay the generators in a scratch copy
    copy = os.path.join(ctx.scratch, "repo_copy")
    shutil.copytree(vlib.REPO, copy, ignore=shutil.ignore_patterns(".git", "pkg"))
    gen = os.path.join(copy, "checkers", "rulesdata", "regenerated.go.txt")
    r = subprocess.run(["go", "run", "./rules/precompile.go", "-rules", "./rules/rules.go", "-o", gen],
                       cwd=os.path.join(copy, "checkers"), env=vlib.goenv(), capture_output=True, text=True, timeout=900)
    if r.returncode != 0 or not os.path.exists(gen):
        raise vlib.Infra("precompile.go failed: " + r.stderr[-1500:])
    shipped_ir = open(os.path.join(vlib.REPO, "checkers", "rulesdata", "rulesdata.go"), "rb").read()
    compiled_ir = open(gen, "rb").read()
    r = subprocess.run(["go", "run", "main.go"], cwd=os.path.join(copy, "cmd", "makedocs"), env=vlib.goenv(), capture_output=True, text=True, timeout=900)
    if r.returncode != 0:
        raise vlib.Infra("makedocs failed: " + r.stderr[-1500:])
    shipped_docs = open(os.path.join(vlib.REPO, "docs", "overview.md"), "rb").read()
    rendered_docs = open(os.path.join(copy, "docs", "overview.md"), "rb").read()
    binp = ctx.build_repo_bin("cmd/go-critic")
    r = subprocess.run([binp, "doc"], capture_output=True, text=True, env=vlib.goenv())
    doc_names = sorted(set(l.split()[0] for l in (r.stdout + r.stderr).splitlines() if re.match(r"^\w+ \[", l.strip())))
    # a listing that succeeds lists every group, whatever the environment: without a Go tree the embedded rules cannot be loaded
    # (their filters need type information of std packages) - the binaries must then fail, not list a part
    degraded = []
    for fe in ("cmd/go-critic", "cmd/gocritic"):
        rb2 = subprocess.run([ctx.build_repo_bin(fe), "doc"], capture_output=True, text=True, env=vlib.goenv({"GOROOT": "/nonexistent-goroot"}))
        names2 = sorted(set(l.split()[0] for l in (rb2.stdout + rb2.stderr).splitlines() if re.match(r"^\w+ \[", l.strip())))
        if rb2.returncode == 0:
            degraded.append(names2)
        if rb2.returncode == 0 and names2 != doc_names:
            ctx.fail("ListingPartial nogoroot", "`%s doc` with an unusable GOROOT exits 0 and lists %d checkers instead of %d (missing e.g. %s)"
                     % (os.path.basename(fe), len(names2), len(doc_names), sorted(set(doc_names) - set(names2))[:4]), {"frontend": fe})
    txt = shipped_docs.decode()
    marks = dict((m.group(2), m.group(1) == "heavy_check_mark") for m in re.finditer(r"\|:(heavy_check_mark|white_check_mark):\[(\w+)\]", txt))

    # the listing follows the registrations (no stale snapshot): before / after the second phase, in a process without the analyzer
    hdir = os.path.join(ctx.scratch, "harness")
    pre_bin = ctx.path("bin", "vhpre")
    rb = subprocess.run(["go", "build", "-o", pre_bin, "./cmd/vhpre"], cwd=hdir, env=vlib.goenv(), capture_output=True, text=True)
    if rb.returncode != 0:
        raise vlib.Infra("vhpre build failed: " + rb.stderr[-800:])
    pre = json.loads(subprocess.run([pre_bin], capture_output=True, text=True).stdout)
    gnames = sorted(g["name"] for g in groups)
    if sorted(set(pre["post"]) - set(pre["pre"])) != gnames or pre["post"] != pre["post2"] or pre["err2"]:
        ctx.fail("ListingStale", "GetCheckersInfo lists %d checkers before and %d after InitEmbeddedRules (second call: %d, err %r); the rule source has %d groups, missing from the listing: %s"
                 % (len(pre["pre"]), len(pre["post"]), len(pre["post2"]), pre["err2"], len(gnames), sorted(set(gnames) - set(pre["post"]))[:5]), {})
    # the default selection the binary really applies vs the marks of the overview page
    hb = subprocess.run([binp, "check", "-help"], capture_output=True, text=True, env=vlib.goenv())
    mh = re.search(r"-enable string\n.*?\(default \"([^\"]*)\"\)", hb.stdout + hb.stderr, re.S)
    if not mh:
        raise vlib.Infra("cannot read the default -enable list from `go-critic check -help`")
    cli_default = sorted(mh.group(1).split(","))
    marked = sorted(n for n in marks if marks[n])
    if cli_default != marked:
        ctx.fail("DefaultMark cli", "docs/overview.md marks %d checkers as enabled by default, `go-critic check` enables %d by default; differing: %s"
                 % (len(marked), len(cli_default), sorted(set(marked) ^ set(cli_default))[:8]), {})

    # a checker named after a group runs that group's rules, however its construction was scheduled (parallel analysis passes)
    gop = ctx.path("groupown.json")
    thorough = ctx.tier == "thorough"
    ctx.run_vh(["groupown", "-groups", ",".join(gnames), "-out", gop, "-seed", str(ctx.seed), "-rounds", "6" if thorough else "2",
                "-workers", "12" if thorough else "8"], timeout=2400)
    gown = json.load(open(gop))
    if gown["groups_with_diagnostics"] < len(gnames) * 3 // 4 or gown["instances"] < len(gnames) * 8:
        raise vlib.Infra("groupown: only %d of %d groups report anything on the example files (%d instances)" % (gown["groups_with_diagnostics"], len(gnames), gown["instances"]))
    for m in gown["mismatches"] or []:
        ctx.fail("CheckerDoesNotRunItsGroup %s" % m["checker"],
                 "an instance of the rule-group checker %s constructed while other goroutines construct rule-group checkers reports %s (%s); constructed alone it reports %s"
                 % (m["checker"], (m.get("got") or [])[:2], m.get("error") or "no error", (m.get("ref") or [])[:2]), {"checker": m["checker"]})

    def fact(name, tags, summary, before, after):
        return "<<%s, %s, %s, %s, %s>>" % (q(name), tset(sorted(q(t) for t in tags)), q(summary), q(before), q(after))
    gfacts = [fact(g["name"], g["tags"], g["summary"], g["before"], g["after"]) for g in groups]
    efacts = [fact(c["name"], c["tags"], c["summary"], c["before"], c["after"]) for c in reg if c["embedded"]]
    names = [c["name"] for c in reg]
    docdef = [c["name"] for c in reg if not (set(c["tags"]) & TAGS4)]
    h = lambda b: q(hashlib.sha256(b).hexdigest()[:16])
    cfg = "SPECIFICATION Spec\nCONSTANTS\n"
    cfg += "  GroupFacts <- CGroupFacts\n  EmbeddedFacts <- CEmbeddedFacts\n"
    cfg = cfg.replace("CONSTANTS\n", "CONSTANTS\n  ReferenceBehaviour <- CRefBeh\n  InstanceBehaviour <- CInstBeh\n")
    cfg += "  RegistryNames = %s\n  DocCmdNames = %s\n  OverviewNames = %s\n" % (tset(q(n) for n in names), tset(q(n) for n in doc_names), tset(q(n) for n in sorted(marks)))
    cfg += "  DefaultMarked = %s\n  DocDefaultNames = %s\n" % (tset(q(n) for n in sorted(marks) if marks[n]), tset(q(n) for n in docdef))
    cfg += "  ShippedIR = %s\n  CompiledIR = %s\n  ShippedDocs = %s\n  RenderedDocs = %s\n" % (h(shipped_ir), h(compiled_ir), h(shipped_docs), h(rendered_docs))
    cfg += "  ListedBeforeInit = %s\n  ListedAfterInit = %s\n  GroupNames = %s\n  CliDefaultNames = %s\n" % (
        tset(q(n) for n in pre["pre"]), tset(q(n) for n in pre["post2"]), tset(q(n) for n in gnames), tset(q(n) for n in cli_default))
    cfg += "  DegradedListings = %s\n" % tset(tset(q(n) for n in l) for l in degraded)
    cfg += "INVARIANTS Shipped OneCheckerPerGroup DocsExact MarksAgree ListingFollowsRegistration ListingAllOrNothing CheckerRunsItsGroup\n"
    # tuples cannot be written in a cfg: put them into a generated module that extends RegistryFacts
    mod = "---- MODULE RegistryFactsMC ----\nEXTENDS RegistryFacts\nCGroupFacts == %s\nCEmbeddedFacts == %s\nCRefBeh == %s\nCInstBeh == %s\n====\n" % (
        tset(gfacts), tset(efacts), tset("<<%s, %s>>" % (q(n), q(d)) for n, d in sorted(gown["ref_digests"].items())),
        tset("<<%s, %s>>" % (q(x.split(" ")[0]), q(x.split(" ")[1])) for x in gown["instance_digests"]))
    open(ctx.spec_path("RegistryFactsMC.tla"), "w").write(mod)
    res = ctx.tlc("RegistryFactsMC", cfg_text=cfg, workers=1, timeout=300)
    if res.error:
        raise vlib.Infra("TLC could not evaluate the extracted facts: %s\n%s" % (res.error, res.out[-1500:]))

    # the verdicts (with the concrete differences) come from the real artefacts
    if shipped_ir != compiled_ir:
        ctx.fail("ShippedRulesStale", "checkers/rulesdata/rulesdata.go differs from what compiling checkers/rules/rules.go produces today "
                 "(%d vs %d bytes; first difference at byte %d)" % (len(shipped_ir), len(compiled_ir), first_diff(shipped_ir, compiled_ir)), {"cmd": "go run ./rules/precompile.go -rules ./rules/rules.go -o X"})
    gmap = {g["name"]: g for g in groups}
    emap = {c["name"]: c for c in reg if c["embedded"]}
    for n in sorted(set(gmap) | set(emap)):
        if n not in emap:
            ctx.fail("GroupWithoutChecker", "rule group %s of rules.go has no registered checker" % n, {"group": n})
        elif n not in gmap:
            ctx.fail("CheckerWithoutGroup", "embedded checker %s has no rule group in rules.go" % n, {"checker": n})
        else:
            g, c = gmap[n], emap[n]
            for k in ("tags", "summary", "before", "after"):
                if (sorted(g[k]) if k == "tags" else g[k]) != (sorted(c[k]) if k == "tags" else c[k]):
                    ctx.fail("GroupMetadataDiffers %s" % k, "group %s: %s in rules.go is %r, the registered checker has %r" % (n, k, g[k], c[k]), {"group": n})
    if len({g["name"] for g in groups}) != len(groups):
        ctx.fail("DuplicateGroup", "rules.go declares a group name twice", {})
    if shipped_docs != rendered_docs:
        # the property is about what the page lists and marks (checked below); other text of the page is reported only
        ctx.notes.append("docs/overview.md differs from what cmd/makedocs renders from the live registry (first difference at byte %d)"
                         % first_diff(shipped_docs, rendered_docs))
    if sorted(marks) != sorted(names):
        ctx.fail("DocsNames", "docs/overview.md lists %s" % sorted(set(marks) ^ set(names))[:6], {})
    if doc_names != sorted(names):
        ctx.fail("DocCmdNames", "`go-critic doc` lists %s differently from the registry" % sorted(set(doc_names) ^ set(names))[:6], {})
    for n in names:
        if n in marks and marks[n] != (n in docdef):
            ctx.fail("DefaultMark", "docs/overview.md marks %s as %s by default, the selection rule says otherwise" % (n, "enabled" if marks[n] else "disabled"), {"checker": n})
    if res.violated and not ctx.violations:
        raise vlib.Infra("TLC refutes %s on the extracted facts but the artefact comparison found no difference" % res.violated)
    if not res.violated and ctx.violations:
        raise vlib.Infra("artefact comparison found differences but TLC accepts the extracted facts")

    cov = {
        "programs": len(groups), "disagreements_checked": 4 + len(groups) * 4 + len(names) * 3,
        "rule_groups": len(groups), "rules": sum(g["rules"] for g in groups), "registered": len(names), "embedded": len(emap),
        "concurrent_construction": {k: gown[k] for k in ("groups", "files", "groups_with_diagnostics", "instances")},
        "ir_bytes": len(shipped_ir), "docs_bytes": len(shipped_docs), "tlc": {"violated": res.violated, "ok": res.ok},
        "samples": [groups[0], {"ir_sha": hashlib.sha256(shipped_ir).hexdigest()[:16], "regenerated_sha": hashlib.sha256(compiled_ir).hexdigest()[:16]}],
    }
    return ctx.finish("translation_validation", cov, ["the generators themselves (precompile.go, makedocs, ruleguard's IR compiler) are trusted"])


def first_diff(a, b):
    for i in range(min(len(a), len(b))):
        if a[i] != b[i]:
            return i
    return min(len(a), len(b))
