"""Generated / adversarial program corpora shared by C01 / C05 / C07 / C12 / C20.

Part 1 (this file): the hand-written adversarial corpus /verif/corpus/adv (legal but unusual Go: parenthesised receivers
and types, blank identifiers, empty constructs, bare returns, function-valued fields, multi-value forwarding, generics,
comment and directive shapes, size/architecture dependent shapes, import tables), copied into the scratch directory.
Part 2: programs enumerated by Scopes.tla and rendered by the harness (`vh scopes`), see props/scopes_common.py.
"""
import os
import shutil
import subprocess

import vlib


def generate(ctx, purpose):
    d = os.path.join(ctx.scratch, "corpus_adv")
    if not os.path.exists(d):
        shutil.copytree(os.path.join(vlib.VERIF, "corpus", "adv"), d)
        r = subprocess.run(["go", "build", "./..."], cwd=d, env=vlib.goenv(), capture_output=True, text=True)
        if r.returncode != 0:
            raise vlib.Infra("the adversarial corpus does not compile (it must be legal Go): " + r.stderr[-1500:])
    return d


def stats(ctx):
    return getattr(ctx, "gen_stats", None)
