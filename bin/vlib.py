"""Shared machinery of the go-critic verification checks.

Everything a property check needs: scratch directories, building the Go harness and
the real binaries from /repo's working tree (with the `verif` tag), running TLC under a
timeout and parsing what it says, parsing TLC state dumps (the case export channel),
known-finding matching, replay files, evidence files, exit codes.

Exit codes (DESIGN.md section 5): 0 = held on everything explored, 1 = violation reproduced on
the real code (a VIOLATION line was printed), 2 = the machinery could not decide.
"""
import hashlib
import json
import os
import random
import re
import shutil
import subprocess
import sys
import tempfile
import time

VERIF = os.path.dirname(os.path.dirname(os.path.abspath(__file__)))
REPO = os.environ.get("VERIF_REPO", "/repo")
SPEC = os.path.join(VERIF, "spec")
HARNESS = os.path.join(VERIF, "harness")
EVIDENCE = os.path.join(VERIF, "evidence")
REPLAYS = os.path.join(VERIF, "replays")
KNOWN = os.path.join(VERIF, "known_findings.jsonl")

GOENV = {
    "GOFLAGS": "-mod=mod",
    "GOPROXY": "off",
    "GOSUMDB": "off",
    "GOTOOLCHAIN": "local",
    "CGO_ENABLED": os.environ.get("CGO_ENABLED", "1"),
}


class Infra(Exception):
    """The machinery failed for a reason that says nothing about /repo (exit 2)."""


def log(*a):
    print(*a, file=sys.stderr, flush=True)


def goenv(extra=None):
    e = dict(os.environ)
    e.update(GOENV)
    if extra:
        e.update(extra)
    return e


# --------------------------------------------------------------------------------------
# TLA+ value parser (for `tlc -dump` files and PrintT output)
# --------------------------------------------------------------------------------------
class _P:
    def __init__(self, s):
        self.s = s
        self.i = 0

    def ws(self):
        s = self.s
        while self.i < len(s) and s[self.i] in " \t\r\n":
            self.i += 1

    def peek(self, n=1):
        return self.s[self.i:self.i + n]

    def eat(self, t):
        self.ws()
        if not self.s.startswith(t, self.i):
            raise ValueError("expected %r at %d: %r" % (t, self.i, self.s[self.i:self.i + 40]))
        self.i += len(t)

    def value(self):
        self.ws()
        s = self.s
        c = s[self.i]
        if c == '"':
            j = self.i + 1
            out = []
            while s[j] != '"':
                if s[j] == "\\":
                    j += 1
                    out.append({"n": "\n", "t": "\t", "r": "\r", "f": "\f"}.get(s[j], s[j]))
                else:
                    out.append(s[j])
                j += 1
            self.i = j + 1
            return "".join(out)
        if s.startswith("<<", self.i):
            self.i += 2
            return self.seq(">>")
        if c == "{":
            self.i += 1
            return {"#set": self.seq("}")}
        if c == "[":
            self.i += 1
            rec = {}
            self.ws()
            if self.peek() == "]":
                self.i += 1
                return rec
            while True:
                self.ws()
                m = re.compile(r"[A-Za-z_][A-Za-z0-9_]*").match(s, self.i)
                k = m.group(0)
                self.i = m.end()
                self.eat("|->")
                rec[k] = self.value()
                self.ws()
                if self.peek() == ",":
                    self.i += 1
                    continue
                self.eat("]")
                return rec
        if c == "(":
            # function: (k :> v @@ k :> v)
            self.i += 1
            pairs = []
            while True:
                k = self.value()
                self.eat(":>")
                v = self.value()
                pairs.append((k, v))
                self.ws()
                if s.startswith("@@", self.i):
                    self.i += 2
                    continue
                self.eat(")")
                break
            if all(isinstance(k, str) for k, _ in pairs):
                return {k: v for k, v in pairs}
            if all(isinstance(k, int) for k, _ in pairs) and sorted(k for k, _ in pairs) == list(range(1, len(pairs) + 1)):
                return [v for _, v in sorted(pairs)]
            return {"#fun": [[k, v] for k, v in pairs]}
        m = re.compile(r"-?\d+").match(s, self.i)
        if m:
            self.i = m.end()
            return int(m.group(0))
        m = re.compile(r"[A-Za-z_][A-Za-z0-9_]*").match(s, self.i)
        if m:
            self.i = m.end()
            w = m.group(0)
            if w == "TRUE":
                return True
            if w == "FALSE":
                return False
            return {"#mv": w}
        raise ValueError("cannot parse at %d: %r" % (self.i, s[self.i:self.i + 40]))

    def seq(self, close):
        out = []
        self.ws()
        if self.s.startswith(close, self.i):
            self.i += len(close)
            return out
        while True:
            out.append(self.value())
            self.ws()
            if self.peek() == ",":
                self.i += 1
                continue
            self.eat(close)
            return out


def parse_tla(s):
    p = _P(s)
    v = p.value()
    return v


def unset(v):
    """Turn {"#set": [...]} wrappers into sorted lists (recursively), for JSON use."""
    if isinstance(v, dict):
        if "#set" in v and len(v) == 1:
            xs = [unset(x) for x in v["#set"]]
            try:
                return sorted(xs, key=lambda x: json.dumps(x, sort_keys=True))
            except TypeError:
                return xs
        if "#mv" in v and len(v) == 1:
            return v["#mv"]
        return {k: unset(x) for k, x in v.items()}
    if isinstance(v, list):
        return [unset(x) for x in v]
    return v


def parse_dump(path, limit=None):
    """Parse a `tlc -dump` file into a list of {var: value} dicts."""
    states = []
    cur = []
    with open(path) as f:
        for line in f:
            if line.startswith("State "):
                if cur:
                    states.append(_parse_state("".join(cur)))
                    if limit and len(states) >= limit:
                        return states
                cur = []
            else:
                cur.append(line)
    if cur and "".join(cur).strip():
        states.append(_parse_state("".join(cur)))
    return states


def _parse_state(block):
    p = _P(block)
    st = {}
    while True:
        p.ws()
        if p.i >= len(p.s):
            return st
        if p.s.startswith("/\\", p.i):
            p.i += 2
        p.ws()
        m = re.compile(r"[A-Za-z_][A-Za-z0-9_]*").match(p.s, p.i)
        if not m:
            return st
        k = m.group(0)
        p.i = m.end()
        p.eat("=")
        st[k] = unset(p.value())


# --------------------------------------------------------------------------------------
# TLC
# --------------------------------------------------------------------------------------
class TLCResult:
    def __init__(self):
        self.rc = None
        self.out = ""
        self.generated = 0
        self.distinct = 0
        self.violated = None      # name of violated invariant / property, or None
        self.ok = False           # "No error has been found"
        self.error = None         # other error text
        self.wall = 0.0
        self.printed = []         # PrintT lines
        self.depth = None
        self.coverage_zero = []

    def __repr__(self):
        return "TLC(rc=%s gen=%d distinct=%d ok=%s violated=%s err=%s %.1fs)" % (
            self.rc, self.generated, self.distinct, self.ok, self.violated, self.error, self.wall)


class Ctx:
    def __init__(self, pid, tier, seed):
        self.pid = pid
        self.tier = tier
        self.seed = seed
        self.rng = random.Random(seed)
        self.t0 = time.time()
        self.scratch = tempfile.mkdtemp(prefix="verif.%s." % pid, dir=os.environ.get("VERIF_SCRATCH", None))
        self.spec_dir = None
        self.vh = None
        self.bins = {}
        self.violations = []       # dicts with sig, what, replay
        self.known_hits = []
        self.known = load_known(pid)
        self.tlc_runs = []
        self.cov = {}              # evidence coverage accumulators
        self.assumptions = []
        self.notes = []

    # ---- scratch -------------------------------------------------------------------
    def path(self, *a):
        p = os.path.join(self.scratch, *a)
        os.makedirs(os.path.dirname(p), exist_ok=True)
        return p

    def cleanup(self):
        if os.environ.get("VERIF_KEEP"):
            log("scratch kept:", self.scratch)
            return
        shutil.rmtree(self.scratch, ignore_errors=True)

    # ---- building --------------------------------------------------------------------
    def build_harness(self, race=False):
        if race:
            if getattr(self, "vh_race", None):
                return self.vh_race
        elif self.vh:
            return self.vh
        out = self.path("bin", "vh_race" if race else "vh")
        # build from a scratch copy so that nothing under /verif is written at run time
        hdir = os.path.join(self.scratch, "harness")
        if not os.path.exists(hdir):
            shutil.copytree(HARNESS, hdir)
        shutil.copy(os.path.join(REPO, "go.sum"), os.path.join(hdir, "go.sum"))
        if REPO != "/repo":
            # development only (bin/matrix.py with several scratch worktrees): point the replace directive at that tree
            gm = os.path.join(hdir, "go.mod")
            txt = open(gm).read().replace("=> /repo", "=> " + REPO)
            open(gm, "w").write(txt)
        t = time.time()
        r = subprocess.run(["go", "build", "-tags", "verif"] + (["-race"] if race else []) + ["-o", out, "./cmd/vh"], cwd=hdir,
                           env=goenv(), capture_output=True, text=True)
        if r.returncode != 0:
            # a /repo that does not compile with hooks on: the tree is broken, not the property
            raise Infra("harness build failed:\n" + r.stdout + r.stderr)
        log("built harness%s in %.1fs" % (" (race)" if race else "", time.time() - t))
        if race:
            self.vh_race = out
        else:
            self.vh = out
        return out

    def build_repo_bin(self, pkg, race=False, tags="verif"):
        key = (pkg, race, tags)
        if key in self.bins:
            return self.bins[key]
        out = self.path("bin", pkg.replace("/", "_") + ("_race" if race else "") + ("_" + tags if tags != "verif" else ""))
        cmd = ["go", "build"]
        if tags:
            cmd += ["-tags", tags]
        if race:
            cmd += ["-race"]
        cmd += ["-o", out, "./" + pkg]
        t = time.time()
        r = subprocess.run(cmd, cwd=REPO, env=goenv(), capture_output=True, text=True)
        if r.returncode != 0:
            raise Infra("build of %s failed:\n%s%s" % (pkg, r.stdout, r.stderr))
        log("built %s in %.1fs" % (pkg, time.time() - t))
        self.bins[key] = out
        return out

    def run_vh(self, args, timeout=1800, env=None, stdin=None, check=True, race=False, cwd=None):
        vh = self.build_harness(race=race)
        t = time.time()
        try:
            r = subprocess.run([vh] + args, capture_output=True, text=True, timeout=timeout,
                               env=goenv(env), input=stdin, cwd=cwd or self.scratch)
        except subprocess.TimeoutExpired:
            raise Infra("harness timed out: vh %s" % " ".join(args))
        log("vh %s: rc=%d %.1fs" % (" ".join(args[:3]), r.returncode, time.time() - t))
        if check and r.returncode != 0:
            raise Infra("harness failed (rc=%d): vh %s\n%s\n%s" % (r.returncode, " ".join(args), r.stdout[-4000:], r.stderr[-6000:]))
        return r

    # ---- TLC ------------------------------------------------------------------------
    def _spec(self):
        if not self.spec_dir:
            self.spec_dir = self.path("spec", "x")[:-2]
            for f in os.listdir(SPEC):
                if f.endswith((".tla", ".cfg")):
                    shutil.copy(os.path.join(SPEC, f), self.spec_dir)
        return self.spec_dir

    def tlc(self, module, cfg=None, workers=8, timeout=600, dump=None, env=None, extra=None,
            simulate=None, depth=None, coverage=False, deadlock=False, cfg_text=None, heap=None, expect=None):
        """Run TLC on spec/<module>.tla with spec/<cfg>.cfg (or the literal cfg_text)."""
        d = self._spec()
        # refresh module text (specs may be generated into spec_dir by the caller)
        cfgname = cfg or (module + ".cfg")
        if cfg_text is not None:
            cfgname = "_gen_%d.cfg" % len(self.tlc_runs)
            with open(os.path.join(d, cfgname), "w") as f:
                f.write(cfg_text)
        meta = tempfile.mkdtemp(prefix="meta", dir=self.scratch)
        cmd = ["timeout", str(int(timeout)), "java", "-XX:+UseParallelGC"]
        cmd += ["-Xss512m", "-Xmx%s" % (heap or "8g")]
        cmd += ["-Djava.io.tmpdir=" + meta,
                "-cp", "/opt/veriftools/tla/tla2tools.jar:/opt/veriftools/tla/CommunityModules-deps.jar", "tlc2.TLC",
                "-metadir", meta, "-workers", str(workers), "-config", cfgname, "-noGenerateSpecTE"]
        if not deadlock:
            cmd += ["-deadlock"]
        if dump:
            cmd += ["-dump", dump]
        if simulate:
            cmd += ["-simulate", simulate]
        if depth:
            cmd += ["-depth", str(depth)]
        if coverage:
            cmd += ["-coverage", "1"]
        if extra:
            cmd += extra
        cmd += [module + ".tla"]
        e = dict(os.environ)
        if env:
            e.update(env)
        t = time.time()
        r = subprocess.run(cmd, cwd=d, capture_output=True, text=True, env=e)
        res = TLCResult()
        res.rc = r.returncode
        res.out = r.stdout + r.stderr
        res.wall = time.time() - t
        shutil.rmtree(meta, ignore_errors=True)
        for m in re.finditer(r"(\d+) states generated, (\d+) distinct states found", res.out):
            res.generated, res.distinct = int(m.group(1)), int(m.group(2))
        m = re.search(r"The depth of the complete state graph search is (\d+)", res.out)
        if m:
            res.depth = int(m.group(1))
        m = re.search(r"Error: Invariant (\S+) is violated", res.out)
        if m:
            res.violated = m.group(1)
        m = re.search(r"The invariant of (\S+) is equal to FALSE", res.out)
        if m and not res.violated:
            res.violated = m.group(1)
        m = re.search(r"Error: Postcondition (\S+)", res.out)
        if m and not res.violated:
            res.violated = m.group(1)
        m2 = re.search(r"Error: Action property (\S+) is violated", res.out) or re.search(r"Error: Temporal propert(?:y|ies)[^\n]*violated", res.out)
        if m2 and not res.violated:
            res.violated = m2.group(1) if m2.groups() else "temporal"
        res.ok = "Model checking completed. No error has been found." in res.out
        if r.returncode == 124:
            res.error = "timeout after %ss" % timeout
        elif not res.ok and not res.violated:
            m = re.search(r"Error: (.*(?:\n.*){0,6})", res.out)
            res.error = m.group(1) if m else ("rc=%d" % r.returncode)
            if simulate and r.returncode == 0:
                res.error = None
                res.ok = True
        res.printed = [l for l in res.out.splitlines() if l.startswith('<<"') or l.startswith('"')]
        if coverage:
            res.coverage_zero = re.findall(r"<(\w+) line \d+, col \d+ to line \d+, col \d+ of module \w+>: 0:0", res.out)
        self.tlc_runs.append({"module": module, "cfg": cfgname, "generated": res.generated, "distinct": res.distinct,
                              "ok": res.ok, "violated": res.violated, "error": res.error, "wall_s": round(res.wall, 2)})
        log("tlc %s/%s: %r" % (module, cfgname, res))
        if expect == "ok" and not res.ok:
            raise Infra("TLC %s/%s expected to pass: %r\n%s" % (module, cfgname, res, res.out[-3000:]))
        if expect == "violation" and not res.violated:
            raise Infra("TLC %s/%s expected to refute an invariant (anti-vacuity what-if): %r\n%s" % (module, cfgname, res, res.out[-3000:]))
        return res

    # ---- trace validation ------------------------------------------------------------
    def validate_trace(self, module, trace_path, split_ev=None, chunks=8, prefix=None, timeout=900, cfg=None, env=None):
        """Validate an NDJSON trace against spec/<module>.tla (acceptance by post-condition).

        Long traces are partitioned at quiescent points (events named split_ev; each chunk is
        prefixed with the `prefix` events, normally a Reset) and the chunks are validated by
        parallel TLC processes. Returns (accepted, first_rejected_line or None, states_total).
        The rejected line is the 1-based line of the ORIGINAL trace file.
        """
        import concurrent.futures
        lines = open(trace_path).read().splitlines()
        n = len(lines)
        bounds = [0]
        if split_ev and chunks > 1 and n > 4000:
            target = n // chunks + 1
            nxt = target
            tag = '"ev":"%s"' % split_ev
            for i, ln in enumerate(lines):
                if i >= nxt and tag in ln:
                    bounds.append(i)
                    nxt = i + target
        bounds.append(n)
        jobs = []
        for k in range(len(bounds) - 1):
            a, b = bounds[k], bounds[k + 1]
            pre = [json.dumps(e) for e in (prefix or [])] if k > 0 else []
            cp = os.path.join(self._spec(), "chunk_%d_%d.ndjson" % (len(self.tlc_runs), k))
            with open(cp, "w") as f:
                f.write("\n".join(pre + lines[a:b]) + "\n")
            jobs.append((k, a, len(pre), b - a, cp))

        def one(job):
            k, a, npre, cnt, cp = job
            e = {"TRACE": os.path.basename(cp)}
            if env:
                e.update(env)
            r = self.tlc(module, cfg=cfg or (module + ".cfg"), workers=1, timeout=timeout, env=e, deadlock=True, heap="3g")
            return job, r

        results = []
        with concurrent.futures.ThreadPoolExecutor(max_workers=min(8, len(jobs))) as ex:
            for job, r in ex.map(one, jobs):
                results.append((job, r))
        total = 0
        first_bad = None
        for (k, a, npre, cnt, cp), r in sorted(results, key=lambda x: x[0][0]):
            total += r.distinct
            if r.ok:
                continue
            if r.violated:
                # states = initial + matched lines; the line after the matched prefix is the rejected one
                local = r.distinct  # 1-based local line that failed to match (or violated an invariant)
                if r.violated != "Accepted":
                    local = max(1, r.distinct - 1)
                line = a + (local - npre)
                if first_bad is None or line < first_bad:
                    first_bad = line
            else:
                raise Infra("trace validation could not run: %r\n%s" % (r, r.out[-3000:]))
        return first_bad is None, first_bad, total

    def spec_path(self, name):
        return os.path.join(self._spec(), name)

    # ---- verdicts --------------------------------------------------------------------
    def fail(self, sig, what, replay_obj):
        """A behaviour of the real code that contradicts the property.

        sig: site signature (string) used for known-finding matching.
        """
        for k in self.known:
            if k.get("status") == "open" and _sig_match(k, sig):
                if not any(h["sig"] == k["sig"] for h in self.known_hits):
                    self.known_hits.append({"sig": k["sig"], "what": k.get("what", ""), "count": 0, "witness": what})
                for h in self.known_hits:
                    if h["sig"] == k["sig"]:
                        h["count"] += 1
                return False
        for v in self.violations:
            if v["sig"] == sig:
                v["count"] += 1
                return True
        os.makedirs(os.path.join(REPLAYS, self.pid), exist_ok=True)
        h = hashlib.sha1((sig + "|" + what).encode()).hexdigest()[:12]
        rp = os.path.join(REPLAYS, self.pid, "%s.json" % h)
        with open(rp, "w") as f:
            json.dump({"property": self.pid, "sig": sig, "what": what, "replay": replay_obj,
                       "seed": self.seed, "tier": self.tier}, f, indent=1, default=str)
        self.violations.append({"sig": sig, "what": what, "replay": rp, "count": 1})
        return True

    def finish(self, level, coverage, assumptions=None):
        """Write evidence, print verdict lines, return exit code."""
        cov = dict(coverage)
        cov.setdefault("tlc_runs", self.tlc_runs)
        cov["known_findings_matched"] = [{"sig": h["sig"], "count": h["count"]} for h in self.known_hits]
        if self.notes:
            cov["notes"] = self.notes
        ev = {
            "property_id": self.pid, "tier": self.tier, "seed": self.seed, "level": level,
            "coverage": cov, "assumptions": (assumptions or []) + self.assumptions,
            "wall_s": round(time.time() - self.t0, 2), "violations": len(self.violations),
        }
        replay_sig = getattr(self, "replay_sig", None)
        if replay_sig is not None:
            # replay of a recorded violation: the whole check is re-run at the recorded seed and tier; the verdict is about that signature only
            again = [v for v in self.violations if v["sig"] == replay_sig]
            for v in again:
                print("VIOLATION property=%s replay=%s" % (self.pid, v["replay"]))
                print("  what: [%s] %s (x%d)" % (v["sig"], v["what"][:1000], v["count"]))
            if not again:
                print("replay: no violation with signature [%s] on this tree" % replay_sig)
            sys.stdout.flush()
            return 1 if again else 0
        os.makedirs(EVIDENCE, exist_ok=True)
        with open(os.path.join(EVIDENCE, "%s.json" % self.pid), "w") as f:
            json.dump(ev, f, indent=1, default=str)
        for h in self.known_hits:
            print("KNOWN-FINDING: property=%s %s (%d cases; e.g. %s)" % (self.pid, h["sig"], h["count"], h["witness"][:300]))
        for v in self.violations:
            print("VIOLATION property=%s replay=%s" % (self.pid, v["replay"]))
            print("  what: [%s] %s (x%d)" % (v["sig"], v["what"][:1000], v["count"]))
        sys.stdout.flush()
        return 1 if self.violations else 0


def _sig_match(k, sig):
    ks = k["sig"]
    if ks.endswith("*"):
        return sig.startswith(ks[:-1])
    return ks == sig


def load_known(pid):
    out = []
    if os.path.exists(KNOWN):
        for line in open(KNOWN):
            line = line.strip()
            if not line or line.startswith("#") or line.startswith("fixed:"):
                continue
            k = json.loads(line)
            if k.get("property") == pid:
                out.append(k)
    return out


def tlc_states_total(ctx):
    return sum(r["distinct"] for r in ctx.tlc_runs), sum(r["generated"] for r in ctx.tlc_runs)


def write_ndjson(path, events):
    with open(path, "w") as f:
        for e in events:
            f.write(json.dumps(e, sort_keys=True) + "\n")
