---------------------------- MODULE TraceAnalyzer ----------------------------
(* Recorded analyzer runs (verif hooks in checkers/analyzer: pass entry / return  *)
(* events carry the pass id; Lock, the branch taken and Unlock are logged while   *)
(* the global mutex is held and belong to whichever entered pass holds it) are    *)
(* validated against Analyzer.tla instantiated over the trace.                    *)
(* IOEnv.INITFAILS says whether the configuration of this run is invalid.         *)
EXTENDS Naturals, Sequences, FiniteSets, TLC, Json, IOUtils
TraceFile == IF "TRACE" \in DOMAIN IOEnv THEN IOEnv.TRACE ELSE "trace.ndjson"
Trace == ndJsonDeserialize(TraceFile)
TPasses == { Trace[i].pass : i \in { j \in 1..Len(Trace) : Trace[j].pass # 0 } }
TInitFails == IF "INITFAILS" \in DOMAIN IOEnv THEN IOEnv.INITFAILS = "1" ELSE FALSE
TLatchSkips == TRUE

VARIABLES mu, cached, latch, ppc, got, paramsWrittenBy, readingParams, l
A == INSTANCE Analyzer WITH Passes <- TPasses, InitFails <- TInitFails, LatchSkips <- TLatchSkips, UnlockAlways <- TRUE
avars == <<mu, cached, latch, ppc, got, paramsWrittenBy, readingParams>>
IsEv(e) == l <= Len(Trace) /\ Trace[l].ev = e /\ l' = l + 1
T == Trace[l]
TInit == A!Init /\ l = 1
TEnter == IsEv("PassEnter") /\ A!Enter(T.pass)
TLock == IsEv("Lock") /\ \E p \in TPasses : A!Lock(p)
TLatchHit == IsEv("LatchHit") /\ mu # 0 /\ A!LatchHit(mu)
TCacheHit == IsEv("CacheHit") /\ mu # 0 /\ A!CacheHit(mu)
TInitOK == IsEv("InitOK") /\ mu # 0 /\ A!InitOK(mu)
TInitFail == IsEv("InitFail") /\ mu # 0 /\ A!InitFail(mu)
TUnlock == IsEv("Unlock") /\ mu # 0 /\ A!Unlock(mu)
TPrepared == IsEv("PassPrepared") /\ A!Create(T.pass)
TRetInitErr == IsEv("PassReturnInitErr") /\ A!ReturnErr(T.pass)
TRetCreateErr == IsEv("PassReturnCreateErr") /\ A!CreateErr(T.pass)
TRetOK == IsEv("PassReturnOK") /\ A!Finish(T.pass)
TRetSkipped == IsEv("PassReturnSkipped") /\ A!Skip(T.pass)
TNext == TEnter \/ TLock \/ TLatchHit \/ TCacheHit \/ TInitOK \/ TInitFail \/ TUnlock \/ TPrepared \/ TRetInitErr \/ TRetCreateErr \/ TRetOK \/ TRetSkipped
TSpec == TInit /\ [][TNext]_<<avars, l>>
NoPanic == A!NoPanic
CfgOrErr == A!CfgOrErr
NoPartial == A!NoPartial
NoParamRace == A!NoParamRace
WrittenOnce == A!WrittenOnce
\* every pass that entered has returned when the trace ends
AllReturned == l = Len(Trace) + 1 => \A p \in TPasses : ppc[p] \in {"idle", "returnedOK", "returnedErr", "returnedSkip"}
Accepted == TLCGet("stats").diameter - 1 = Len(Trace)
==============================================================================
