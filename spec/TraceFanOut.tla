----------------------------- MODULE TraceFanOut -----------------------------
(***************************************************************************)
(* Validates a recorded run of the real `check` command (binary built with *)
(* -tags verif, GOCRITIC_VERIF_TRACE set; events are written under one     *)
(* mutex with a sequence number, release-type operations logged before and *)
(* acquire-type operations after the operation) against FanOut.tla: the    *)
(* module is instantiated with N = number of constructed checkers, NFiles =*)
(* number of SetFile events, K = the -concurrency value (IOEnv.K), and its *)
(* own actions are conjoined with the logged fields.  On top of FanOut's   *)
(* variables the trace spec tracks the configuration pipeline (Step),      *)
(* which checker each goroutine runs, the Check protocol inside a          *)
(* goroutine and the number of printed lines per slot.                     *)
(***************************************************************************)
EXTENDS Naturals, Sequences, FiniteSets, TLC, Json, IOUtils

TraceFile == IF "TRACE" \in DOMAIN IOEnv THEN IOEnv.TRACE ELSE "trace.ndjson"
Trace == ndJsonDeserialize(TraceFile)
StrToNat(s) == CHOOSE n \in 0..4096 : ToString(n) = s
TK == IF "K" \in DOMAIN IOEnv THEN StrToNat(IOEnv.K) ELSE 1
Idxs(e) == { i \in 1..Len(Trace) : Trace[i].ev = e }
TN == Cardinality(Idxs("New"))
TNFiles == Cardinality(Idxs("SetFile"))

Steps == <<"bind checker params", "bind default enabled list", "parse args", "start profiling", "assign checker params",
           "load program", "init checkers", "run checkers", "finish profiling", "exit if found issues">>

VARIABLES mainPc, nextI, file, tokens, wg, gpc, slot, out, ctxFile, sched,   \* FanOut
          l, step, names, chk, cnt, pslot, pcount, found

F == INSTANCE FanOut WITH N <- TN, K <- TK, NFiles <- TNFiles,
       WaitBeforePrint <- TRUE, ReleaseAfterCheck <- TRUE, PrivateSlots <- TRUE, TokenReturned <- TRUE, RecordSched <- FALSE

fvars == <<mainPc, nextI, file, tokens, wg, gpc, slot, out, ctxFile, sched>>
xvars == <<step, names, chk, cnt, pslot, pcount, found>>
tvars == <<fvars, xvars, l>>

IsEv(e) == l <= Len(Trace) /\ Trace[l].ev = e /\ l' = l + 1
T == Trace[l]
I == T.i + 1                                  \* checker index (the code counts from 0)

TInit == F!Init /\ l = 1 /\ step = 0 /\ names = <<>> /\ chk = [i \in 1..TN |-> "no"] /\ cnt = [i \in 1..TN |-> 0]
         /\ pslot = 0 /\ pcount = 0 /\ found = FALSE

\* all lines of the previous slot have been printed
SlotFlushed == IF pslot = 0 THEN TRUE ELSE pcount = cnt[pslot]

TStep == /\ IsEv("Step") /\ step < Len(Steps) /\ T.s = Steps[step + 1] /\ step' = step + 1
         /\ IF T.s = "finish profiling"
            THEN F!Finish /\ SlotFlushed /\ UNCHANGED <<names, chk, cnt, pslot, pcount, found>>
            ELSE UNCHANGED <<fvars, names, chk, cnt, pslot, pcount, found>>
TNew == /\ IsEv("New") /\ step = 7 /\ T.s = ""                         \* constructed during "init checkers", no error
        /\ names' = Append(names, T.c) /\ UNCHANGED <<fvars, step, chk, cnt, pslot, pcount, found>>
Quiet == step = 8 /\ mainPc = "idle" /\ F!Running = {} /\ SlotFlushed   \* main may write the shared context
TSetPkg == IsEv("SetPkg") /\ Quiet /\ UNCHANGED <<fvars, xvars>>
TSkip == (IsEv("SkipTest") \/ IsEv("SkipGenerated")) /\ Quiet /\ UNCHANGED <<fvars, xvars>>
TSetFile == /\ IsEv("SetFile") /\ Quiet /\ F!SetFile
            /\ chk' = [i \in 1..TN |-> "no"] /\ cnt' = [i \in 1..TN |-> 0] /\ pslot' = 0 /\ pcount' = 0
            /\ UNCHANGED <<step, names, found>>
TAcquire == IsEv("Acquire") /\ nextI = I /\ F!Acquire /\ UNCHANGED xvars
TGStart == IsEv("GStart") /\ F!GBegin(<<file, I>>) /\ UNCHANGED xvars
TCheckBegin == /\ IsEv("CheckBegin") /\ T.n = 0
               /\ \E i \in 1..TN : /\ names[i] = T.c /\ gpc[<<file, i>>] = "checking" /\ chk[i] = "no"
                                   /\ chk' = [chk EXCEPT ![i] = "begun"]
               /\ UNCHANGED <<fvars, step, names, cnt, pslot, pcount, found>>
TCheckEnd == /\ IsEv("CheckEnd")
             /\ \E i \in 1..TN : /\ names[i] = T.c /\ gpc[<<file, i>>] = "checking" /\ chk[i] = "begun"
                                 /\ chk' = [chk EXCEPT ![i] = "ended"] /\ cnt' = [cnt EXCEPT ![i] = T.n]
             /\ UNCHANGED <<fvars, step, names, pslot, pcount, found>>
TSlotWrite == IsEv("SlotWrite") /\ chk[I] = "ended" /\ F!GEnd(<<file, I>>) /\ UNCHANGED xvars
TWgDone == IsEv("WgDone") /\ F!GDone(<<file, I>>) /\ UNCHANGED xvars
\* a goroutine of an earlier file may still hold its token
TRelease == IsEv("Release") /\ (\E f \in 1..file : F!GRelease(<<f, I>>)) /\ UNCHANGED xvars
TBarrier == IsEv("Barrier") /\ T.i = TN /\ F!Barrier /\ UNCHANGED xvars
TPrintSlot == /\ IsEv("PrintSlot") /\ nextI = I /\ SlotFlushed /\ F!PrintSlot
              /\ pslot' = I /\ pcount' = 0 /\ UNCHANGED <<step, names, chk, cnt, found>>
TPrint == /\ IsEv("Print") /\ pslot = I /\ pcount < cnt[I]
          /\ pcount' = pcount + 1 /\ found' = TRUE /\ UNCHANGED <<fvars, step, names, chk, cnt, pslot>>
TExit == IsEv("Exit") /\ step = 10 /\ found /\ mainPc = "done" /\ UNCHANGED <<fvars, xvars>>

TNext == TStep \/ TNew \/ TSetPkg \/ TSkip \/ TSetFile \/ TAcquire \/ TGStart \/ TCheckBegin \/ TCheckEnd
         \/ TSlotWrite \/ TWgDone \/ TRelease \/ TBarrier \/ TPrintSlot \/ TPrint \/ TExit
TSpec == TInit /\ [][TNext]_tvars

AtMostK == F!AtMostK
TokensOK == F!TokensOK
PrintAfterAll == F!PrintAfterAll
NoCtxWriteDuringCheck == F!NoCtxWriteDuringCheck
\* exit status: a run that printed something must not end its pipeline without Exit (checked at the last line)
ExitIffIssues == (l = Len(Trace) + 1 /\ step = 10) => (found => Trace[Len(Trace)].ev = "Exit")

\* acceptance: the highest line reached (the spec may branch on Release)
Accepted == TLCGet("stats").diameter - 1 = Len(Trace)
View == <<l, gpc>>
=============================================================================
