SPECIFICATION Spec
CONSTANTS
  ParenFuncTail = TRUE
  ComplexIsDefault = FALSE
  NamedIsDefault = FALSE
INVARIANTS KeepsType ConvUnambiguous
