package hx

import (
	"bufio"
	"encoding/json"
	"fmt"
	"go/ast"
	"go/token"
	"os"
	"path/filepath"
	"runtime"
	"runtime/debug"
	"sort"
	"strings"
	"sync"
	"time"

	"github.com/go-critic/go-critic/linter"
	"golang.org/x/tools/go/packages"
)

// Unit is one analysable file of a loaded corpus.
type Unit struct {
	Pkg  *packages.Package
	File *ast.File
	Phys string // physical file name (absolute)
	Base string // what the front-ends pass to SetFileInfo
	ID   string // short stable id used in traces: <pkg id>/<base>
}

// Units flattens packages into units, skipping files that are not Go source on disk.
func Units(fset *token.FileSet, pkgs []*packages.Package) []*Unit {
	var out []*Unit
	for _, p := range pkgs {
		if p.TypesInfo == nil || p.Types == nil {
			continue
		}
		for _, f := range p.Syntax {
			phys := FileName(fset, f.Pos())
			out = append(out, &Unit{Pkg: p, File: f, Phys: phys, Base: filepath.Base(fset.Position(f.Pos()).Filename),
				ID: p.ID + "/" + filepath.Base(phys)})
		}
	}
	return out
}

// Trace writes NDJSON events.
type Trace struct {
	mu sync.Mutex
	w  *bufio.Writer
	f  *os.File
	N  int
}

func NewTrace(path string) *Trace {
	if path == "" {
		return &Trace{}
	}
	f, err := os.Create(path)
	Must(err)
	return &Trace{f: f, w: bufio.NewWriterSize(f, 1<<20)}
}

func (t *Trace) Emit(m map[string]interface{}) int {
	t.mu.Lock()
	defer t.mu.Unlock()
	t.N++
	if t.w != nil {
		b, err := json.Marshal(m)
		Must(err)
		t.w.Write(b)
		t.w.WriteByte('\n')
	}
	return t.N
}

func (t *Trace) Close() {
	if t.w != nil {
		t.w.Flush()
		t.f.Close()
	}
}

// Nonconf is one event of the recorded execution that does not conform to the specification
// (kept with full detail; the trace itself only carries digests and booleans).
type Nonconf struct {
	Line    int      `json:"line"` // trace line of the event
	Kind    string   `json:"kind"` // ResultDiffers | BufNotEmpty | RetNotBuf | InfoIdentity | InputMutated | WarnObligation | Panic | Timeout
	Checker string   `json:"checker"`
	File    string   `json:"file"`
	Prev    string   `json:"prev"` // the unit visited before (history context)
	Detail  []string `json:"detail"`
}

type refKey struct {
	c string
	u *Unit
}

// Runner drives one long-lived checker set (built on one Context, before any
// SetPackageInfo - the order the CLI uses) through visit sequences, records the
// execution through the linter hooks and compares with fresh instances built in the
// other legal order (after SetPackageInfo, on a private context - analyzer/linttest order).
type Runner struct {
	Fset     *token.FileSet
	Infos    []*linter.CheckerInfo
	Ctx      *linter.Context
	Set      map[string]*linter.Checker
	Tr       *Trace
	Oblig    map[string]bool // which obligations are evaluated: "c03","c05","c07"
	Deadline time.Duration
	GoVer    string
	RefFirst bool

	refs    map[refKey][]string
	refMu   sync.Mutex
	fp0     map[*Unit][2]uint64 // file fp, info fp before any checker ran
	reg0    uint64
	infoPtr interface{}

	cur      *Unit
	prev     *Unit
	sawBegin bool
	ctxFP    uint64
	curC     string
	lastGot  string

	Nonconfs         []Nonconf
	Checks           int
	Warns            int
	Samples          []string
	NontrivialChecks int
	RefCount         int
}

func NewRunner(fset *token.FileSet, infos []*linter.CheckerInfo, tr *Trace, oblig string, goVer string) *Runner {
	r := &Runner{Fset: fset, Infos: infos, Tr: tr, Oblig: map[string]bool{}, Deadline: 60 * time.Second, GoVer: goVer,
		refs: map[refKey][]string{}, fp0: map[*Unit][2]uint64{}}
	for _, o := range strings.Split(oblig, ",") {
		r.Oblig[strings.TrimSpace(o)] = true
	}
	return r
}

// Baseline fingerprints all units before any checker (including reference instances) has seen them.
func (r *Runner) Baseline(units []*Unit) {
	var wg sync.WaitGroup
	var mu sync.Mutex
	sem := make(chan struct{}, runtime.GOMAXPROCS(0))
	for _, u := range units {
		mu.Lock()
		_, ok := r.fp0[u]
		mu.Unlock()
		if ok {
			continue
		}
		wg.Add(1)
		sem <- struct{}{}
		go func(u *Unit) {
			defer func() { <-sem; wg.Done() }()
			a, b := FileFP(u.File), InfoFP(u.Pkg.TypesInfo, u.File)
			mu.Lock()
			r.fp0[u] = [2]uint64{a, b}
			mu.Unlock()
		}(u)
	}
	wg.Wait()
	r.reg0 = RegistryFP()
}

// Fresh runs a newly constructed instance of the checker on u alone (analyzer construction order).
func Fresh(fset *token.FileSet, info *linter.CheckerInfo, u *Unit, goVer string) (lines []string, ws []linter.Warning, err error) {
	defer func() {
		if p := recover(); p != nil {
			err = fmt.Errorf("panic in fresh instance: %v\n%s", p, debug.Stack())
		}
	}()
	ctx := linter.NewContext(fset, Sizes)
	if goVer != "" {
		ctx.SetGoVersion(goVer)
	}
	ctx.SetPackageInfo(u.Pkg.TypesInfo, u.Pkg.Types)
	c, e := linter.NewChecker(ctx, info)
	if e != nil {
		return nil, nil, e
	}
	ctx.SetFileInfo(u.Base, u.File)
	ws = c.Check(u.File)
	ws = append([]linter.Warning(nil), ws...)
	return WarnStrings(fset, ws), ws, nil
}

// ComputeRefs fills the reference cache for the requested (unit, checker) pairs, in parallel.
func (r *Runner) ComputeRefs(need map[*Unit]map[string]bool) {
	byName := map[string]*linter.CheckerInfo{}
	for _, in := range r.Infos {
		byName[in.Name] = in
	}
	type job struct {
		c string
		u *Unit
	}
	jobs := make(chan job, 1024)
	var wg sync.WaitGroup
	for w := 0; w < runtime.GOMAXPROCS(0); w++ {
		wg.Add(1)
		go func() {
			defer wg.Done()
			for j := range jobs {
				lines, _, err := Fresh(r.Fset, byName[j.c], j.u, r.GoVer)
				if err != nil {
					lines = []string{"<fresh-error> " + firstLine(err.Error())}
				}
				r.refMu.Lock()
				r.refs[refKey{j.c, j.u}] = lines
				r.refMu.Unlock()
			}
		}()
	}
	for u, cs := range need {
		for c := range cs {
			r.refMu.Lock()
			_, ok := r.refs[refKey{c, u}]
			r.refMu.Unlock()
			if !ok {
				jobs <- job{c, u}
			}
		}
	}
	close(jobs)
	wg.Wait()
	r.RefCount = len(r.refs)
}

func firstLine(s string) string {
	if i := strings.IndexByte(s, '\n'); i >= 0 {
		return s[:i]
	}
	return s
}

// Reset builds a new long-lived set: one context, all checkers constructed before any package is set.
func (r *Runner) Reset(names []string) error {
	r.Ctx = linter.NewContext(r.Fset, Sizes)
	if r.GoVer != "" {
		r.Ctx.SetGoVersion(r.GoVer)
	}
	r.infoPtr = r.Ctx.TypesInfo
	r.Set = map[string]*linter.Checker{}
	r.cur, r.prev = nil, nil
	want := map[string]bool{}
	for _, n := range names {
		want[n] = true
	}
	linter.VerifRecorder = r.hook
	r.Tr.Emit(map[string]interface{}{"ev": "Reset"})
	for _, in := range r.Infos {
		if !want[in.Name] {
			continue
		}
		c, err := linter.NewChecker(r.Ctx, in)
		if err != nil {
			return fmt.Errorf("construct %s: %v", in.Name, err)
		}
		r.Set[in.Name] = c
	}
	return nil
}

func (r *Runner) hook(e *linter.VerifEvent) {
	if e.Ctx != r.Ctx {
		return // reference instances have their own contexts
	}
	switch e.Ev {
	case "SetPkg":
		same := interface{}(r.Ctx.TypesInfo) == r.infoPtr
		line := r.Tr.Emit(map[string]interface{}{"ev": "SetPkg", "pkg": pkgID(e), "infoSame": same})
		if !same {
			r.nonconf(line, "InfoIdentity", "", "", []string{"Context.TypesInfo pointer changed across SetPackageInfo"})
			r.infoPtr = r.Ctx.TypesInfo
		}
	case "CheckBegin":
		r.sawBegin = true
		bl := e.BufLen
		line := r.Tr.Emit(map[string]interface{}{"ev": "CheckBegin", "c": e.Checker, "bufLen": bl})
		if bl != 0 {
			r.nonconf(line, "BufNotEmpty", e.Checker, r.cur.ID, []string{fmt.Sprintf("warning buffer has %d entries when the walk starts", bl)})
		}
	case "CheckEnd": // the walk is over; Check has not returned yet
		u := r.cur
		got := WarnStrings(r.Fset, e.Warnings)
		r.refMu.Lock()
		fresh, haveRef := r.refs[refKey{e.Checker, u}]
		r.refMu.Unlock()
		if !haveRef {
			fresh = got // no reference requested for this pair: nothing is claimed
			if r.RefFirst {
				// determinism mode: the first observation of (checker, file) is the reference for all later ones
				r.refMu.Lock()
				r.refs[refKey{e.Checker, u}] = append([]string{}, got...)
				r.refMu.Unlock()
			}
		}
		gd, fd := Digest(got), Digest(fresh)
		if !r.Oblig["c03"] {
			fd = gd
		}
		fpSame := true
		var fpDetail []string
		if r.Oblig["c05"] {
			b := r.fp0[u]
			if a := FileFP(u.File); a != b[0] {
				fpSame = false
				fpDetail = append(fpDetail, "syntax tree fingerprint changed")
			}
			if a := InfoFP(u.Pkg.TypesInfo, u.File); a != b[1] {
				fpSame = false
				fpDetail = append(fpDetail, "type information fingerprint changed")
			}
			if a := CtxFP(r.Ctx); a != r.ctxFP {
				fpSame = false
				fpDetail = append(fpDetail, "shared context changed")
			}
			if a := RegistryFP(); a != r.reg0 {
				fpSame = false
				fpDetail = append(fpDetail, "registered checker metadata / parameter values changed")
			}
		}
		warnOK := true
		var wDetail []string
		if r.Oblig["c07"] {
			for _, w := range e.Warnings {
				if bad := WarnProblems(r.Fset, u.Phys, w); len(bad) != 0 {
					warnOK = false
					wDetail = append(wDetail, strings.Join(bad, ",")+" :: "+WarnString(r.Fset, w))
				}
			}
		}
		skipClear := true
		var skipSet []string
		if r.Oblig["c03"] {
			if c := r.Set[e.Checker]; c != nil {
				_, skipSet = SkipFlagsSet(c)
				skipClear = len(skipSet) == 0
			}
		}
		line := r.Tr.Emit(map[string]interface{}{"ev": "Walked", "c": e.Checker, "file": u.ID, "got": gd, "fresh": fd,
			"fpSame": fpSame, "warnOK": warnOK, "skipClear": skipClear})
		if !skipClear {
			r.nonconf(line, "SkipFlagLeft", e.Checker, u.ID, append([]string{"one-shot SkipChilds flag still set when the walk of the file ends:"}, skipSet...))
		}
		if gd != fd {
			d := []string{"long-lived instance:"}
			d = append(d, got...)
			d = append(d, "fresh instance:")
			d = append(d, fresh...)
			r.nonconf(line, "ResultDiffers", e.Checker, u.ID, d)
		}
		if !fpSame {
			r.nonconf(line, "InputMutated", e.Checker, u.ID, fpDetail)
			// re-baseline so that later checks are judged on their own
			r.fp0[u] = [2]uint64{FileFP(u.File), InfoFP(u.Pkg.TypesInfo, u.File)}
			r.ctxFP = CtxFP(r.Ctx)
			r.reg0 = RegistryFP()
		}
		if !warnOK {
			r.nonconf(line, "WarnObligation", e.Checker, u.ID, wDetail)
		}
		r.lastGot = gd
		r.Warns += len(got)
		if len(got) > 0 {
			r.NontrivialChecks++
			if len(r.Samples) < 5 {
				r.Samples = append(r.Samples, e.Checker+" @ "+got[0])
			}
		}
	}
}

func pkgID(e *linter.VerifEvent) string {
	if e.Pkg == nil {
		return "<nil>"
	}
	return e.Pkg.Path()
}

func (r *Runner) nonconf(line int, kind, c, file string, detail []string) {
	prev := ""
	if r.prev != nil {
		prev = r.prev.ID
	}
	if len(detail) > 40 {
		detail = append(detail[:40], "...")
	}
	r.Nonconfs = append(r.Nonconfs, Nonconf{Line: line, Kind: kind, Checker: c, File: file, Prev: prev, Detail: detail})
}

// Visit makes u the current file: SetPackageInfo when the package changes, then SetFileInfo.
func (r *Runner) Visit(u *Unit) {
	if r.cur == nil || r.cur.Pkg != u.Pkg {
		r.Ctx.SetPackageInfo(u.Pkg.TypesInfo, u.Pkg.Types)
	}
	if r.cur != u {
		r.prev = r.cur
	}
	r.cur = u
	r.Ctx.SetFileInfo(u.Base, u.File)
	ctxOK, why := true, ""
	if r.Oblig["c03"] {
		ctxOK, why = ContextImportTablesOK(r.Ctx, u.Pkg.TypesInfo, u.File)
	}
	line := r.Tr.Emit(map[string]interface{}{"ev": "SetFile", "pkg": u.Pkg.Types.Path(), "file": u.ID, "ctxOK": ctxOK})
	if !ctxOK {
		r.nonconf(line, "StaleContext", "", u.ID, []string{why})
	}
	r.ctxFP = CtxFP(r.Ctx)
}

// Check runs the long-lived instance of checker `name` on the current unit, under recover and a deadline.
func (r *Runner) Check(name string) {
	c := r.Set[name]
	u := r.cur
	r.Checks++
	type res struct {
		ws    []linter.Warning
		panic string
	}
	done := make(chan res, 1)
	r.sawBegin = false
	go func() {
		defer func() {
			if p := recover(); p != nil {
				done <- res{panic: fmt.Sprintf("%v\n%s", p, debug.Stack())}
			}
		}()
		ws := c.Check(u.File)
		done <- res{ws: ws}
	}()
	select {
	case x := <-done:
		if x.panic != "" {
			line := r.Tr.Emit(map[string]interface{}{"ev": "CheckPanic", "c": name, "file": u.ID})
			r.nonconf(line, "Panic", name, u.ID, strings.Split(x.panic, "\n"))
			return
		}
		rd := Digest(WarnStrings(r.Fset, x.ws))
		line := r.Tr.Emit(map[string]interface{}{"ev": "CheckEnd", "c": name, "ret": rd})
		if !r.sawBegin {
			// Check returned without going through buffer reset / walk: not a behaviour of the lifecycle at all
			d := []string{"Check returned without resetting its buffer and walking the file; it returned:"}
			d = append(d, WarnStrings(r.Fset, x.ws)...)
			for _, w := range x.ws {
				if bad := WarnProblems(r.Fset, u.Phys, w); len(bad) != 0 {
					d = append(d, "obligation "+strings.Join(bad, ",")+" :: "+WarnString(r.Fset, w))
				}
			}
			r.nonconf(line, "ProtocolSkipped", name, u.ID, d)
			return
		}
		if rd != r.lastGot {
			r.nonconf(line, "RetNotBuf", name, u.ID, []string{"Check returned something else than its warning buffer"})
		}
	case <-time.After(r.Deadline):
		line := r.Tr.Emit(map[string]interface{}{"ev": "CheckTimeout", "c": name, "file": u.ID})
		r.nonconf(line, "Timeout", name, u.ID, []string{fmt.Sprintf("no result within %v", r.Deadline)})
	}
}

// Names returns the sorted checker names of the runner's registry view.
func (r *Runner) Names() []string {
	var out []string
	for _, in := range r.Infos {
		out = append(out, in.Name)
	}
	sort.Strings(out)
	return out
}

// CompareBaseline counts units whose fingerprints differ between two runners' baselines
// (used to detect damage done by the reference runs themselves) and records them.
func (r *Runner) CompareBaseline(after *Runner) int {
	n := 0
	for u, a := range r.fp0 {
		if b, ok := after.fp0[u]; ok && a != b {
			n++
			r.nonconf(0, "InputMutated", "<reference run>", u.ID, []string{"a fresh instance of some checker modified the tree or type information"})
		}
	}
	return n
}
