SPECIFICATION HSpec
CONSTANTS
  Checkers <- HCheckers
  Pkgs <- HPkgs
  Files <- HFiles
  PkgOf <- HPkgOf
  Diag <- HDiag
  Residue <- HNone
  Sensitive <- HNone
  Rewriters = {}
  HasImports <- HHasImports
  RebuildImports = TRUE
  ResetBuf = TRUE
  ResetScratch = TRUE
  InPlaceInfo = TRUE
  CopiesFirst = TRUE
  MaxHist = 60
INVARIANTS HistIndep
