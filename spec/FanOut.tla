------------------------------- MODULE FanOut -------------------------------
(***************************************************************************)
(* cmd/go-critic/check.go checkPackage/checkFile: for every file the main  *)
(* goroutine acquires one of K semaphore tokens per checker and spawns a   *)
(* goroutine; goroutine (f,i) runs checker i on file f, writes its private *)
(* slot, signals the WaitGroup and only then releases its token.  The      *)
(* semaphore is created PER FILE (checkFile makes a new channel), so a     *)
(* goroutine of file f that has not yet released its token does not delay  *)
(* file f+1: `tokens` counts the tokens of the current file's semaphore.   *)
(* Main waits for the WaitGroup, prints the slots in index order and moves *)
(* on (writing the shared context in SetFileInfo).                         *)
(*                                                                         *)
(* What-if constants (TRUE = what the code does):                          *)
(*   WaitBeforePrint   wg.Wait() before printing                           *)
(*   ReleaseAfterCheck the token is released after the check               *)
(*   PrivateSlots      warnings[i] is private to goroutine i               *)
(*   TokenReturned     the deferred receive from the semaphore             *)
(* Liveness (LiveSpec: weak fairness of the main goroutine and of every    *)
(* spawned goroutine): the run terminates and every file is printed.       *)
(***************************************************************************)
EXTENDS Naturals, Sequences, FiniteSets, TLC
CONSTANTS N, K, NFiles, WaitBeforePrint, ReleaseAfterCheck, PrivateSlots,
          TokenReturned,   \* the deferred `<-sema` (what-if FALSE: a goroutine keeps its token)
          RecordSched      \* keep the schedule as a history variable (off for liveness checking: no VIEW there)
Idx == 1..N
G == (1..NFiles) \X Idx                     \* goroutine instances: (file, checker index)
VARIABLES mainPc, nextI, file, tokens, wg, gpc, slot, out, ctxFile, sched
vars == <<mainPc, nextI, file, tokens, wg, gpc, slot, out, ctxFile, sched>>
Diag(i, f) == << <<f, i>> >>                 \* checker i reports one warning on the file it sees in the context

Init == /\ mainPc = "idle" /\ nextI = 1 /\ file = 0 /\ tokens = 0 /\ wg = 0
        /\ gpc = [g \in G |-> "none"] /\ slot = [i \in Idx |-> <<>>] /\ out = <<>> /\ ctxFile = 0 /\ sched = <<>>
Ev(e) == sched' = IF RecordSched THEN Append(sched, e) ELSE sched

\* one action per instrumented point of the code (so that recorded events map 1:1 onto actions)
SetFile == /\ mainPc = "idle" /\ file < NFiles
           /\ file' = file + 1 /\ ctxFile' = file + 1 /\ wg' = N /\ nextI' = 1 /\ slot' = [i \in Idx |-> <<>>]
           /\ tokens' = 0                                  \* a fresh semaphore for this file
           /\ mainPc' = "spawn" /\ UNCHANGED <<gpc, out, sched>>
Acquire == /\ mainPc = "spawn" /\ nextI <= N /\ tokens < K
           /\ tokens' = tokens + 1 /\ gpc' = [gpc EXCEPT ![<<file, nextI>>] = "spawned"] /\ nextI' = nextI + 1
           /\ Ev(<<"acq", file, nextI>>) /\ UNCHANGED <<mainPc, file, wg, slot, out, ctxFile>>
Barrier == /\ mainPc = "spawn" /\ nextI > N /\ (WaitBeforePrint => wg = 0) /\ mainPc' = "print" /\ nextI' = 1
           /\ Ev(<<"barrier", file>>) /\ UNCHANGED <<file, tokens, wg, gpc, slot, out, ctxFile>>
PrintSlot == /\ mainPc = "print" /\ nextI <= N /\ out' = out \o slot[nextI] /\ nextI' = nextI + 1
             /\ mainPc' = IF nextI = N THEN "idle" ELSE "print"
             /\ UNCHANGED <<file, tokens, wg, gpc, slot, ctxFile, sched>>
Finish == /\ mainPc = "idle" /\ file = NFiles /\ mainPc' = "done"
          /\ UNCHANGED <<nextI, file, tokens, wg, gpc, slot, out, ctxFile, sched>>

GBegin(g) == /\ gpc[g] = "spawned" /\ gpc' = [gpc EXCEPT ![g] = "checking"] /\ Ev(<<"begin", g[1], g[2]>>)
             /\ UNCHANGED <<mainPc, nextI, file, tokens, wg, slot, out, ctxFile>>
GEnd(g) == /\ gpc[g] = "checking" /\ gpc' = [gpc EXCEPT ![g] = "checked"]
           /\ slot' = [slot EXCEPT ![IF PrivateSlots THEN g[2] ELSE 1] = @ \o Diag(g[2], ctxFile)]   \* reads ctx at the end of the interval
           /\ Ev(<<"end", g[1], g[2]>>) /\ UNCHANGED <<mainPc, nextI, file, tokens, wg, out, ctxFile>>
GDone(g) == /\ gpc[g] = "checked" /\ wg' = wg - 1 /\ gpc' = [gpc EXCEPT ![g] = "wgdone"] /\ Ev(<<"done", g[1], g[2]>>)
            /\ UNCHANGED <<mainPc, nextI, file, tokens, slot, out, ctxFile>>
GRelease(g) == /\ ReleaseAfterCheck /\ gpc[g] = "wgdone"
               /\ tokens' = IF TokenReturned /\ g[1] = file THEN tokens - 1 ELSE tokens     \* an older file's semaphore is not this one
               /\ gpc' = [gpc EXCEPT ![g] = "gone"] /\ Ev(<<"rel", g[1], g[2]>>)
               /\ UNCHANGED <<mainPc, nextI, file, wg, slot, out, ctxFile>>
\* what-if: token released as soon as the goroutine starts
GEarlyRelease(g) == /\ ~ReleaseAfterCheck /\ gpc[g] = "spawned" /\ tokens' = IF g[1] = file THEN tokens - 1 ELSE tokens
                    /\ gpc' = [gpc EXCEPT ![g] = "checking"] /\ Ev(<<"begin", g[1], g[2]>>)
                    /\ UNCHANGED <<mainPc, nextI, file, wg, slot, out, ctxFile>>
GExit(g) == /\ ~ReleaseAfterCheck /\ gpc[g] = "wgdone" /\ gpc' = [gpc EXCEPT ![g] = "gone"]
            /\ UNCHANGED <<mainPc, nextI, file, tokens, wg, slot, out, ctxFile, sched>>

Next == SetFile \/ Acquire \/ Barrier \/ PrintSlot \/ Finish
        \/ \E g \in G : (ReleaseAfterCheck /\ GBegin(g)) \/ GEnd(g) \/ GDone(g) \/ GRelease(g) \/ GEarlyRelease(g) \/ GExit(g)
Spec == Init /\ [][Next]_vars
MainStep == SetFile \/ Acquire \/ Barrier \/ PrintSlot \/ Finish
GStep(g) == (ReleaseAfterCheck /\ GBegin(g)) \/ GEnd(g) \/ GDone(g) \/ GRelease(g) \/ GEarlyRelease(g) \/ GExit(g)
LiveSpec == Spec /\ WF_vars(MainStep) /\ \A g \in G : WF_vars(GStep(g))
Terminates == <>(mainPc = "done")
EveryFilePrinted == \A f \in 1..NFiles : <>(file = f /\ mainPc = "print")

Running == { g \in G : gpc[g] = "checking" }
AtMostK == Cardinality(Running) <= K
NoCtxWriteDuringCheck == mainPc = "idle" => Running = {}             \* SetFileInfo/SetPackageInfo vs readers of the context
PrintAfterAll == mainPc = "print" => \A i \in Idx : gpc[<<file, i>>] \in {"wgdone", "gone"}
SlotsComplete == mainPc = "print" => \A i \in Idx : (i >= nextI => slot[i] = Diag(i, file))
SeqOut == LET RECURSIVE S(_) S(f) == IF f = 0 THEN <<>> ELSE S(f-1) \o [i \in 1..N |-> <<f, i>>] IN S(NFiles)
OutEqualsSequential == mainPc = "done" => out = SeqOut
TokensOK == tokens <= K
View == <<mainPc, nextI, file, tokens, wg, gpc, slot, out, ctxFile>>
\* for schedule export: "violated" exactly at the end of a complete behaviour
NotDone == mainPc # "done"
=============================================================================
