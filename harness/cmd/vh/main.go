package main

import (
	"fmt"

	"github.com/go-critic/go-critic/checkers"
	"github.com/go-critic/go-critic/linter"
)

func main() {
	if err := checkers.InitEmbeddedRules(); err != nil {
		panic(err)
	}
	fmt.Println(len(linter.GetCheckersInfo()))
}
