#!/usr/bin/env python3
"""Entry point of every registered check:  python3 bin/check.py <Cxx> [--tier quick|thorough] [--replay PATH]

Honours VERIF_SEED and VERIF_TIER. See DESIGN.md sections 5 and 8.
"""
import argparse
import importlib
import os
import subprocess
import sys
import traceback

sys.path.insert(0, os.path.dirname(os.path.abspath(__file__)))
import vlib  # noqa: E402


def setup():
    """MANIFEST.setup_cmd: tool availability + syntax check of every spec module (nothing depends on /repo)."""
    rc = 0
    for tool in (["java", "-version"], ["go", "version"]):
        r = subprocess.run(tool, capture_output=True, text=True)
        if r.returncode != 0:
            print("missing tool:", tool[0])
            rc = 2
    import tempfile, shutil
    d = tempfile.mkdtemp(prefix="verif.setup.")
    try:
        for f in sorted(os.listdir(vlib.SPEC)):
            if f.endswith(".tla"):
                shutil.copy(os.path.join(vlib.SPEC, f), d)
        for f in sorted(os.listdir(d)):
            r = subprocess.run(["timeout", "120", "java", "-cp",
                                "/opt/veriftools/tla/tla2tools.jar:/opt/veriftools/tla/CommunityModules-deps.jar",
                                "tla2sany.SANY", f], cwd=d, capture_output=True, text=True)
            bad = r.returncode != 0 or "*** Errors" in r.stdout or "Fatal errors" in r.stdout or "Could not find module" in r.stdout
            print("sany %-28s %s" % (f, "FAILED" if bad else "ok"))
            if bad:
                print(r.stdout[-2000:])
                rc = 2
    finally:
        shutil.rmtree(d, ignore_errors=True)
    return rc


def main():
    ap = argparse.ArgumentParser()
    ap.add_argument("pid", nargs="?")
    ap.add_argument("--tier", default=os.environ.get("VERIF_TIER") or "quick", choices=["quick", "thorough"])
    ap.add_argument("--replay")
    ap.add_argument("--setup", action="store_true")
    a = ap.parse_args()
    if a.setup:
        sys.exit(setup())
    try:
        seed = int(os.environ.get("VERIF_SEED", "1"))
    except ValueError:
        seed = 1
    pid = a.pid.upper()
    mod = importlib.import_module("props." + pid.lower())
    tier = a.tier
    rp = None
    if a.replay:
        import json
        try:
            rp = json.load(open(a.replay))
            seed, tier = int(rp.get("seed", seed)), rp.get("tier", tier)
        except (OSError, ValueError) as e:
            print("INFRA-ERROR property=%s: cannot read replay file %s: %s" % (pid, a.replay, e))
            sys.exit(2)
    ctx = vlib.Ctx(pid, tier, seed)
    rc = 2
    try:
        if rp is not None:
            # the check is deterministic for a given seed and tier: re-run it and report on the recorded signature only
            ctx.replay_sig = rp.get("sig", "")
            rc = mod.run(ctx)
        else:
            rc = mod.run(ctx)
    except vlib.Infra as e:
        print("INFRA-ERROR property=%s: %s" % (pid, e))
        rc = 2
    except Exception:
        traceback.print_exc()
        print("INFRA-ERROR property=%s: unexpected exception in the check driver" % pid)
        rc = 2
    finally:
        ctx.cleanup()
    sys.exit(rc)


if __name__ == "__main__":
    main()
