"""C05 - checkers treat their input as read-only.

Spec: Lifecycle.tla: the frame condition of WalkRef (tree unchanged; what-if CopiesFirst=FALSE is refuted for
InputsReadOnly and, through a later checker seeing the damage, for HistIndep). Binding: recorded executions in
which the structural fingerprint of the syntax tree, of the type information of the file, of the shared context
and of the registered checker metadata is logged with every Walked event (fpSame) and the result of every
checker B after other checkers A is compared with B alone; TraceLifecycle.tla requires fpSame and got = fresh.
"""
import os

import vlib
from props import lifecycle_common as lc
from props import gen_common


def run(ctx):
    thorough = ctx.tier == "thorough"
    design = lc.design(ctx, ["noCopy"], coverage=thorough)
    # what-if: the damage is visible to the next checker (order dependence), not only as a fingerprint
    a, b, c, d, _ = lc.WHATIFS["noCopy"]
    r = ctx.tlc("LifecycleMC", cfg_text=lc.CFG % ("TRUE", a, b, c, d, "HistIndep"), workers=4, timeout=300, expect="violation")
    design["noCopy_orderDependence"] = {"refuted": r.violated, "distinct": r.distinct}

    runs = []
    gdir = gen_common.generate(ctx, "c05")
    corp = "examples,dir:" + gdir
    args = ["-corpus", corp, "-mode", "order", "-others", "0" if thorough else "10", "-oblig", "c03,c05"]
    res, trace = lc.run_harness(ctx, "c05_order", args)
    runs.append((args, res, trace))
    # parameter corners (a checker may write only on a non-default path); ruleguard with a real rule file
    rules = os.path.join(vlib.REPO, "checkers", "testdata", "_integration", "ruleguard", "rules.go")
    for corner in ("min", "min386", "max"):
        a = ["-corpus", corp, "-mode", "order", "-others", "0" if thorough else "3", "-oblig", "c03,c05",
             "-params", "%s,ruleguard.rules=%s" % (corner.replace("386", ""), rules)]
        if corner == "min386":
            # a context whose sizes differ from the host's: a SizesInfo overwritten with the host's model becomes visible
            # (and on the host's own sizes one overwritten with another model does)
            a += ["-sizes", "386"]
        res_c, trace_c = lc.run_harness(ctx, "c05_" + corner, a, cwd=vlib.REPO)
        runs.append((a, res_c, trace_c))
    if thorough:
        args2 = ["-corpus", "std:40,repo", "-mode", "cli", "-oblig", "c05", "-frac", "1"]
        res2, trace2 = lc.run_harness(ctx, "c05_std", args2, timeout=6000)
        runs.append((args2, res2, trace2))

    events = states = checks = nontriv = 0
    for args, res, trace in runs:
        e, s = lc.judge(ctx, res, trace)
        events += e
        states += s
        checks += res["checks"]
        nontriv += res["nontrivial_checks"]
        for n in res["nonconf"]:
            if n["kind"] == "InputMutated":
                ctx.fail("InputMutated %s" % n["checker"],
                         "checker %s modified its input while analysing %s: %s" % (n["checker"], n["file"], "; ".join(n["detail"])),
                         {"cmd": "vh lifecycle " + " ".join(args), "nonconf": n})
            elif n["kind"] == "ResultDiffers":
                ctx.fail("OrderDependent %s" % n["checker"],
                         "result of %s on %s depends on the checkers that ran before it: %s" % (n["checker"], n["file"], " | ".join(n["detail"][:10])),
                         {"cmd": "vh lifecycle " + " ".join(args), "nonconf": n})
            elif n["kind"] in ("Panic", "Timeout"):
                ctx.notes.append("%s of %s on %s (a C01 matter; event replaced to examine the rest of the trace)" % (n["kind"], n["checker"], n["file"]))
    lc.canary(ctx, runs[0][2], lambda e: dict(e, fpSame=False) if e["ev"] == "Walked" else None)

    st, tr = vlib.tlc_states_total(ctx)
    cov = {
        "states": st, "transitions": tr,
        "traces_validated_against_impl": len(runs),
        "events_validated": events,
        "checks_fingerprinted": checks,
        "checks_with_warnings": nontriv,
        "files": sum(r[1]["units"] for r in runs),
        "design": design,
        "fingerprint": "reflection walk over the *ast.File graph (all fields, positions, Obj/Scope, comments, aliasing), per-node entries "
                       "of types.Info, all Context fields, all registered CheckerInfo/Params values; baseline taken before any checker "
                       "(including reference instances) has seen the tree",
        "exhaustive": False,
        "samples": runs[0][1]["samples"][:4] or ["(no warnings)"],
    }
    return ctx.finish("model_checking", cov, ["damage outside the analysed file's own nodes in types.Info is only seen through the map sizes"])
