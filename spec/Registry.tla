------------------------------ MODULE Registry ------------------------------
(***************************************************************************)
(* The process-wide checker registry (linter.prototypes) is filled in two  *)
(* phases: package initialisation of `checkers` registers the hand-written *)
(* checkers, checkers.InitEmbeddedRules registers one checker per rule     *)
(* group of the precompiled rule set.  Each front-end works from a         *)
(* SNAPSHOT of the registry (linter.GetCheckersInfo) taken at some point   *)
(* of its start-up:                                                        *)
(*   cli / twin   main(): InitEmbeddedRules; runCheck: snapshot            *)
(*   makedocs     main(): InitEmbeddedRules; snapshot                      *)
(*   analyzer     package initialisation of checkers/analyzer: snapshot;   *)
(*                the analysis mains call nothing else.                    *)
(* AnalyzerInitsEmbedded = TRUE: the analyzer package runs the second      *)
(* phase itself before taking its snapshot (InitEmbeddedRules idempotent); *)
(* FALSE is the pinned tree (snapshot before phase 2: 67 of 107 checkers). *)
(***************************************************************************)
EXTENDS Naturals, FiniteSets, TLC
CONSTANTS Handwritten, Groups, AnalyzerInitsEmbedded
FrontEnds == {"cli", "twin", "makedocs", "analysis", "twin-analysis"}
IsAnalysis(fe) == fe \in {"analysis", "twin-analysis"}

VARIABLES fe,           \* which binary this process is
          pc, registry, embedded, snapshot, initCalls
vars == <<fe, pc, registry, embedded, snapshot, initCalls>>

Init == /\ fe \in FrontEnds /\ pc = "pkginit-checkers" /\ registry = {} /\ embedded = FALSE
        /\ snapshot = {} /\ initCalls = 0

RegisterHandwritten == /\ pc = "pkginit-checkers" /\ registry' = registry \cup Handwritten
                       /\ pc' = IF IsAnalysis(fe) THEN "pkginit-analyzer" ELSE "main"
                       /\ UNCHANGED <<fe, embedded, snapshot, initCalls>>
\* idempotent second phase
DoInitEmbedded == /\ registry' = IF embedded THEN registry ELSE registry \cup Groups
                  /\ embedded' = TRUE /\ initCalls' = initCalls + 1
AnalyzerPkgInit == /\ pc = "pkginit-analyzer"
                   /\ IF AnalyzerInitsEmbedded
                      THEN DoInitEmbedded /\ snapshot' = registry \cup Groups
                      ELSE snapshot' = registry /\ UNCHANGED <<registry, embedded, initCalls>>
                   /\ pc' = "main" /\ UNCHANGED fe
Main == /\ pc = "main"
        /\ IF IsAnalysis(fe) THEN UNCHANGED <<registry, embedded, snapshot, initCalls>>      \* singlechecker.Main
           ELSE DoInitEmbedded /\ snapshot' = registry \cup Groups                            \* InitEmbeddedRules; GetCheckersInfo
        /\ pc' = "run" /\ UNCHANGED fe
Next == RegisterHandwritten \/ AnalyzerPkgInit \/ Main
Spec == Init /\ [][Next]_vars

\* C08: every front-end offers every checker
SameOffer == pc = "run" => snapshot = Handwritten \cup Groups
\* C17: each rule group is exactly one registered checker (registering twice would panic in linter.addChecker)
OneCheckerPerGroup == pc = "run" /\ ~IsAnalysis(fe) => Groups \subseteq registry
=============================================================================
