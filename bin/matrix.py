#!/usr/bin/env python3
"""Run every seeded change against the checks that are expected to catch it (plus its own property's check) and record the outcome.

usage: matrix.py [<Cxx-N> ...]     writes /verif/seeded/MATRIX.json (merged) ; /repo is patched and restored for every entry
"""
import json
import os
import re
import subprocess
import sys
import time

VERIF = os.path.dirname(os.path.dirname(os.path.abspath(__file__)))
SEED = os.path.join(VERIF, "seeded")
# changes found by the check of another property as well (established during development)
ALSO = {"C01-2": ["C04"], "C14-2": ["C18"], "C17-3": ["C06"]}


def main():
    want = sys.argv[1:]
    mpath = os.path.join(SEED, "MATRIX.json")
    matrix = json.load(open(mpath)) if os.path.exists(mpath) else {}
    ids = sorted(d for d in os.listdir(SEED) if re.match(r"^C\d\d-\d$", d))
    for sid in ids:
        if want and sid not in want:
            continue
        d = os.path.join(SEED, sid)
        patch = os.path.join(d, "patch_ported.diff") if os.path.exists(os.path.join(d, "patch_ported.diff")) else os.path.join(d, "patch.diff")
        checks = [sid.split("-")[0]] + ALSO.get(sid, [])
        t = time.time()
        r = subprocess.run(["python3", os.path.join(VERIF, "bin", "muttest.py"), patch] + checks, capture_output=True, text=True)
        res = {}
        for c in checks:
            m = re.search(r"^%s (DETECTED|MISSED|INFRA)" % c, r.stdout, re.M)
            res[c] = m.group(1) if m else "NOT-RUN"
        first = re.search(r"what: (.*)", r.stdout)
        matrix[sid] = {"results": res, "first_violation": first.group(1)[:300] if first else None, "wall_s": round(time.time() - t),
                       "note": r.stdout.strip().splitlines()[0][:200] if "NOT-RUN" in res.values() and r.stdout.strip() else None}
        print(sid, res, matrix[sid]["wall_s"], flush=True)
        json.dump(matrix, open(mpath, "w"), indent=1, sort_keys=True)
        mp = os.path.join(d, "meta.json")
        meta = json.load(open(mp))
        meta["detected_by"] = sorted(c for c, v in res.items() if v == "DETECTED")
        json.dump(meta, open(mp, "w"), indent=1)


if __name__ == "__main__":
    main()
