"""Shared by the checks that are decided on recorded executions of the checker lifecycle
(C01, C03, C05, C07): design-level TLC runs of Lifecycle.tla, export of visit sequences from
TLC simulation, running the harness, and judging the recorded trace with TraceLifecycle.tla."""
import glob
import json
import os
import re

import vlib

WHATIFS = {
    # name: (ResetBuf, ResetScratch, InPlaceInfo, CopiesFirst, invariant expected to be refuted)
    "noResetBuf": ("FALSE", "TRUE", "TRUE", "TRUE", "BufEmptyAtBegin"),
    "noResetScratch": ("TRUE", "FALSE", "TRUE", "TRUE", "HistIndep"),
    "noInPlace": ("TRUE", "TRUE", "FALSE", "TRUE", "HistIndep"),
    "noCopy": ("TRUE", "TRUE", "TRUE", "FALSE", "InputsReadOnly"),
    "noRebuildImports": ("TRUE", "TRUE", "TRUE", "TRUE", "CtxImportsCurrent"),
}

CFG = """SPECIFICATION Spec
CONSTANTS
  Checkers <- MCCheckers
  Pkgs <- MCPkgs
  Files <- MCFiles
  PkgOf <- MCPkgOf
  Diag <- MCDiag
  Residue <- MCResidue
  Sensitive <- MCSensitive
  Rewriters <- MCRewriters
  HasImports <- MCHasImports
  RebuildImports = %s
  ResetBuf = %s
  ResetScratch = %s
  InPlaceInfo = %s
  CopiesFirst = %s
  MaxHist = 12
INVARIANTS %s
"""


def design(ctx, whatifs, coverage=False):
    """Exhaustive check of the design module with the code's constants, and the what-if refutations."""
    r = ctx.tlc("LifecycleMC", cfg="LifecycleMC.cfg", workers=4, timeout=300, coverage=coverage, expect="ok")
    out = {"main": {"distinct": r.distinct, "generated": r.generated}}
    if coverage and r.coverage_zero:
        # actions never taken would make the invariants vacuous
        acts = [a for a in r.coverage_zero if a in ("SetPackageInfo", "SetFileInfo", "CheckBegin", "WalkRef", "CheckEnd")]
        if acts:
            raise vlib.Infra("Lifecycle actions never taken in the exhaustive model: %s" % acts)
    for w in whatifs:
        a, b, c, d, inv = WHATIFS[w]
        r = ctx.tlc("LifecycleMC", cfg_text=CFG % ("FALSE" if w == "noRebuildImports" else "TRUE", a, b, c, d, inv), workers=4, timeout=300, expect="violation")
        if r.violated != inv:
            raise vlib.Infra("what-if %s refuted %s, expected %s" % (w, r.violated, inv))
        out[w] = {"refuted": inv, "distinct": r.distinct}
    return out


def export_histories(ctx, num, depth, seed):
    """Behaviours of LifecycleHist (TLC simulation) -> visit sequences over abstract files f1..f5 (as 0..4)."""
    d = ctx._spec()
    for f in glob.glob(os.path.join(d, "sim_*")):
        os.remove(f)
    ctx.tlc("LifecycleHist", cfg="LifecycleHist.cfg", workers=1, timeout=300,
            simulate="file=sim,num=%d" % num, depth=depth, extra=["-seed", str(seed)])
    hists = []
    for f in sorted(glob.glob(os.path.join(d, "sim_*"))):
        txt = open(f).read()
        i = txt.rfind("/\\ trail = ")
        if i < 0:
            continue
        j = txt.find("\n/\\ ", i + 5)
        val = vlib.parse_tla(txt[i + len("/\\ trail = "):j if j > 0 else None])
        h = [int(x[1:]) - 1 for x in val]
        if h:
            hists.append(h)
        os.remove(f)
    if not hists:
        raise vlib.Infra("TLC simulation exported no behaviour")
    uniq = []
    seen = set()
    for h in hists:
        if tuple(h) not in seen:
            seen.add(tuple(h))
            uniq.append(h)
    return uniq


def run_harness(ctx, tag, args, timeout=3000, cwd=None):
    trace = ctx.path("traces", "%s.ndjson" % tag)
    out = ctx.path("traces", "%s.json" % tag)
    ctx.run_vh(["lifecycle", "-trace", trace, "-out", out, "-seed", str(ctx.seed)] + args, timeout=timeout, cwd=cwd)
    res = json.load(open(out))
    res["nonconf"] = res.get("nonconf") or []
    return res, trace


def repair(lines, nonconfs):
    """Replace every non-conforming event by its conforming counterpart so that the rest of the trace is examined."""
    ev = [json.loads(l) for l in lines]
    bad = {}
    for n in nonconfs:
        if n["line"] > 0:
            bad.setdefault(n["line"], []).append(n)
    out = []
    fix_ret = {}  # checker -> digest to use for its next CheckEnd
    for i, e in enumerate(ev, start=1):
        e = dict(e)
        kinds = {n["kind"] for n in bad.get(i, [])}
        if e["ev"] == "SetFile" and "StaleContext" in kinds:
            e["ctxOK"] = True
        if e["ev"] == "Walked" and kinds & {"ResultDiffers", "InputMutated", "WarnObligation", "SkipFlagLeft"}:
            if "ResultDiffers" in kinds:
                fix_ret[e["c"]] = e["fresh"]
            e["got"] = e["fresh"]
            e["fpSame"] = True
            e["warnOK"] = True
            e["skipClear"] = True
        if e["ev"] == "CheckBegin" and "BufNotEmpty" in kinds:
            e["bufLen"] = 0
        if e["ev"] == "SetPkg" and "InfoIdentity" in kinds:
            e["infoSame"] = True
        if e["ev"] == "CheckEnd":
            if e["c"] in fix_ret:
                e["ret"] = fix_ret.pop(e["c"])
            elif "RetNotBuf" in kinds:
                # returned value differs from the buffer: use the buffer digest of the preceding Walked
                for p in reversed(out):
                    if p["ev"] == "Walked" and p["c"] == e["c"]:
                        e["ret"] = p["got"]
                        break
        if e["ev"] == "CheckEnd" and "ProtocolSkipped" in kinds:
            out.append({"ev": "CheckBegin", "c": e["c"], "bufLen": 0})
            out.append({"ev": "Walked", "c": e["c"], "file": bad[i][0]["file"], "got": e["ret"], "fresh": e["ret"], "fpSame": True, "warnOK": True, "skipClear": True})
        if e["ev"] in ("CheckPanic", "CheckTimeout"):
            out.append({"ev": "Walked", "c": e["c"], "file": e["file"], "got": "", "fresh": "", "fpSame": True, "warnOK": True, "skipClear": True})
            out.append({"ev": "CheckEnd", "c": e["c"], "ret": ""})
            continue
        out.append(e)
    return [json.dumps(e, sort_keys=True) for e in out]


def judge(ctx, res, trace):
    """TraceLifecycle decides; the harness' own list of non-conforming events must agree with it.

    Returns (events_validated, states).
    """
    lines = open(trace).read().splitlines()
    nonconfs = [n for n in res["nonconf"] if n["line"] > 0]
    ok, first_bad, states = ctx.validate_trace("TraceLifecycle", trace, split_ev="SetPkg", prefix=[{"ev": "Reset"}])
    if not nonconfs:
        if not ok:
            raise vlib.Infra("TraceLifecycle rejected the recorded execution at line %s (%s) but the harness saw nothing wrong: "
                             "hook placement / trace specification mismatch" % (first_bad, lines[first_bad - 1] if first_bad else "?"))
        return len(lines), states
    want = min(n["line"] for n in nonconfs)
    if ok or first_bad != want:
        raise vlib.Infra("TraceLifecycle verdict (accepted=%s, first rejected line=%s) disagrees with the harness (first non-conforming line=%s)"
                         % (ok, first_bad, want))
    fixed = ctx.path("traces", os.path.basename(trace) + ".repaired")
    with open(fixed, "w") as f:
        f.write("\n".join(repair(lines, nonconfs)) + "\n")
    ok2, bad2, st2 = ctx.validate_trace("TraceLifecycle", fixed, split_ev="SetPkg", prefix=[{"ev": "Reset"}])
    if not ok2:
        raise vlib.Infra("the trace is still rejected after replacing the %d non-conforming events (line %s): unexamined suffix"
                         % (len(nonconfs), bad2))
    return len(lines), states + st2


def canary(ctx, trace, mutate):
    """Anti-vacuity: corrupt one event of a freshly recorded (accepted) trace; TLC must reject it at that line."""
    lines = open(trace).read().splitlines()[:3000]
    idx = None
    for i, l in enumerate(lines):
        e = json.loads(l)
        e2 = mutate(e)
        if e2 is not None:
            lines[i] = json.dumps(e2, sort_keys=True)
            idx = i + 1
            break
    if idx is None:
        raise vlib.Infra("canary: no event to corrupt in the recorded trace")
    # cut at the last complete check so that the prefix is a well-formed trace
    cp = ctx.path("traces", "canary_%d.ndjson" % len(ctx.tlc_runs))
    with open(cp, "w") as f:
        f.write("\n".join(lines) + "\n")
    ok, bad, _ = ctx.validate_trace("TraceLifecycle", cp, chunks=1)
    if ok or bad != idx:
        raise vlib.Infra("canary: corrupted event at line %d was not rejected there (accepted=%s, rejected line=%s)" % (idx, ok, bad))
    return idx
