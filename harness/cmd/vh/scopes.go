package main

import (
	"encoding/json"
	"flag"
	"fmt"
	"go/ast"
	"go/token"
	"go/types"
	"os"
	"path/filepath"
	"runtime/debug"
	"strings"

	"github.com/go-critic/go-critic/linter"
	"verifharness/hx"
)

func init() { commands["scopes"] = scopesCmd }

// A subject: an API that some checker is specifically about, with code that makes the checker speak when the API is real.
type subject struct {
	ID       string
	Kind     string   // builtin | stdpkg
	Name     string   // the spelling that is re-declared: "len", "regexp"
	Path     string   // import path of the real package (stdpkg)
	Member   string   // selected member (stdpkg)
	Checkers []string // checkers whose subject this is
	Setup    string   // statements before the trigger
	Normal   string   // trigger statement, CALLEE = callee expression, for the real API
	FakeArgs string   // trigger statement when the callee is a namesake (if the real one takes a type etc.); default Normal
	Zero     string   // the same call without arguments
	Variadic bool     // the real API accepts a call without arguments
	FakeRet  string   // result type(s) of the namesake
	FakeBody string
}

var subjects = []subject{
	{ID: "len", Kind: "builtin", Name: "len", Checkers: []string{"sloppyLen", "offBy1"},
		Normal: "_ = CALLEE(xs) >= 0", Zero: "_ = CALLEE() >= 0", FakeRet: "int", FakeBody: "return -1"},
	{ID: "len-index", Kind: "builtin", Name: "len", Checkers: []string{"offBy1"},
		Normal: "_ = xs[CALLEE(xs)]", Zero: "_ = xs[CALLEE()]", FakeRet: "int", FakeBody: "return 0"},
	{ID: "append-assign", Kind: "builtin", Name: "append", Checkers: []string{"appendAssign"},
		Normal: "ys = CALLEE(xs, 1)", Zero: "ys = CALLEE()", FakeRet: "[]int", FakeBody: "return nil"},
	{ID: "append-combine", Kind: "builtin", Name: "append", Checkers: []string{"appendCombine"},
		Normal: "xs = CALLEE(xs, 1)\n\txs = CALLEE(xs, 2)", Zero: "xs = CALLEE()\n\txs = CALLEE()", FakeRet: "[]int", FakeBody: "return nil"},
	{ID: "append-range", Kind: "builtin", Name: "append", Checkers: []string{"rangeAppendAll"},
		Normal: "for range xs {\n\t\tys = CALLEE(ys, xs...)\n\t}", FakeArgs: "for range xs {\n\t\tys = CALLEE(ifs...)\n\t}", Zero: "for range xs {\n\t\tys = CALLEE()\n\t}", FakeRet: "[]int", FakeBody: "return nil"},
	{ID: "new", Kind: "builtin", Name: "new", Checkers: []string{"newDeref"},
		Normal: "_ = *CALLEE(int)", FakeArgs: "_ = *CALLEE(5)", Zero: "_ = *CALLEE()", FakeRet: "*int", FakeBody: "return &gi"},
	{ID: "copy", Kind: "builtin", Name: "copy", Checkers: []string{"dupArg"},
		Normal: "CALLEE(xs, xs)", Zero: "CALLEE()", FakeRet: "int", FakeBody: "return 0"},
	{ID: "regexp.MustCompile", Kind: "stdpkg", Name: "regexp", Path: "regexp", Member: "MustCompile",
		Checkers: []string{"badRegexp", "regexpSimplify", "regexpPattern", "regexpMust"},
		Normal:   `_ = CALLEE("[a-a]+(?:x)google.com")`, Zero: "_ = CALLEE()", FakeRet: "*R", FakeBody: "return nil"},
	{ID: "regexp.Compile", Kind: "stdpkg", Name: "regexp", Path: "regexp", Member: "Compile",
		Checkers: []string{"badRegexp", "regexpSimplify", "regexpPattern", "regexpMust"},
		Normal:   `_, _ = CALLEE("[a-a]+(?:x)google.com")`, Zero: "_, _ = CALLEE()", FakeRet: "(*R, error)", FakeBody: "return nil, nil"},
	{ID: "sort.Slice", Kind: "stdpkg", Name: "sort", Path: "sort", Member: "Slice", Checkers: []string{"sortSlice"},
		Normal: "CALLEE(xs, func(i, j int) bool { return ys[i] < ys[j] })", FakeArgs: "CALLEE(xs, func(i, j int) { return })", Zero: "CALLEE()", FakeRet: "", FakeBody: ""},
	{ID: "filepath.Join", Variadic: true, Kind: "stdpkg", Name: "filepath", Path: "path/filepath", Member: "Join", Checkers: []string{"filepathJoin"},
		Normal: `_ = CALLEE("a/b", "c")`, Zero: "_ = CALLEE()", FakeRet: "string", FakeBody: `return ""`},
	{ID: "flag.String", Kind: "stdpkg", Name: "flag", Path: "flag", Member: "String", Checkers: []string{"flagName", "flagDeref"},
		Normal: `_ = *CALLEE(" bad name", "", "")`, Zero: "_ = *CALLEE()", FakeRet: "*string", FakeBody: "return &gs"},
	{ID: "log.Fatal", Variadic: true, Kind: "stdpkg", Name: "log", Path: "log", Member: "Fatal", Checkers: []string{"exitAfterDefer"},
		Normal: "defer println(s)\n\tCALLEE(s)", Zero: "defer println(s)\n\tCALLEE()", FakeRet: "", FakeBody: ""},
	{ID: "os.Exit", Kind: "stdpkg", Name: "os", Path: "os", Member: "Exit", Checkers: []string{"exitAfterDefer"},
		Normal: "defer println(s)\n\tCALLEE(1)", Zero: "defer println(s)\n\tCALLEE()", FakeRet: "", FakeBody: ""},
	{ID: "strings.Compare", Kind: "stdpkg", Name: "strings", Path: "strings", Member: "Compare", Checkers: []string{"stringsCompare"},
		Normal: "_ = CALLEE(s, t) == 0", Zero: "_ = CALLEE() == 0", FakeRet: "int", FakeBody: "return 0"},
	{ID: "strings.SplitN", Kind: "stdpkg", Name: "strings", Path: "strings", Member: "SplitN", Checkers: []string{"wrapperFunc"},
		Normal: `_ = CALLEE(s, ",", -1)`, Zero: "_ = CALLEE()", FakeRet: "[]string", FakeBody: "return nil"},
	{ID: "bytes.Equal", Kind: "stdpkg", Name: "bytes", Path: "bytes", Member: "Compare", Checkers: []string{"dupArg"},
		Normal: "_ = CALLEE(bs, bs)", Zero: "_ = CALLEE()", FakeRet: "int", FakeBody: "return 0"},
	{ID: "fmt.Sprint", Variadic: true, Kind: "stdpkg", Name: "fmt", Path: "fmt", Member: "Sprint", Checkers: []string{"redundantSprint"},
		Normal: "_ = CALLEE(s)", Zero: "_ = CALLEE()", FakeRet: "string", FakeBody: `return ""`},
	{ID: "fmt.Sprintf", Kind: "stdpkg", Name: "fmt", Path: "fmt", Member: "Sprintf", Checkers: []string{"sprintfQuotedString", "redundantSprint", "dynamicFmtString"},
		Normal: `_ = CALLEE("\"%s\"", s)`, Zero: "_ = CALLEE()", FakeRet: "string", FakeBody: `return ""`},
	{ID: "http.NewRequest", Kind: "stdpkg", Name: "http", Path: "net/http", Member: "NewRequest", Checkers: []string{"httpNoBody"},
		Normal: `_, _ = CALLEE("GET", s, nil)`, Zero: "_, _ = CALLEE()", FakeRet: "(*R, error)", FakeBody: "return nil, nil"},
	{ID: "math.Max", Kind: "stdpkg", Name: "math", Path: "math", Member: "Max", Checkers: []string{"dupArg"},
		Normal: "_ = CALLEE(fl, fl)", Zero: "_ = CALLEE()", FakeRet: "float64", FakeBody: "return 0"},
	{ID: "reflect.DeepEqual", Kind: "stdpkg", Name: "reflect", Path: "reflect", Member: "DeepEqual", Checkers: []string{"dupArg"},
		Normal: "_ = CALLEE(xs, xs)", Zero: "_ = CALLEE()", FakeRet: "bool", FakeBody: "return false"},
}

type scopeCase struct {
	ID       string
	Kind     string
	Variadic bool
	PkgD     string
	FileD    string
	ParamD   string
	LocalD   string
	Shape    string
}

// render produces one package for (subject, case); line of the trigger is marked with a "// TRIGGER" comment.
func renderScope(s subject, c scopeCase, pkg string) (files map[string]string) {
	files = map[string]string{}
	callee := s.Name
	if s.Kind == "stdpkg" {
		callee = s.Name + "." + s.Member
		if c.FileD == "dotReal" || c.FileD == "dotFake" {
			callee = s.Member
		}
		if c.FileD == "fakeNamedAs" {
			callee = "app" + s.Name + "." + s.Member
		}
	}
	namesake := !(c.PkgD == "none" && c.ParamD == "none" && c.LocalD == "none" && c.FileD != "fakeImport" && c.FileD != "dotFake" && c.FileD != "fakeNamed" && c.FileD != "fakeNamedAs")
	trigger := s.Normal
	if namesake && s.FakeArgs != "" {
		trigger = s.FakeArgs
	}
	if c.Shape == "zeroArgs" {
		trigger = s.Zero
	}
	trigger = strings.ReplaceAll(trigger, "CALLEE", callee)
	lines := strings.Split(trigger, "\n")
	for i := range lines {
		lines[i] += " // TRIGGER"
	}
	trigger = strings.Join(lines, "\n")

	fakeSig := "(args ...interface{}) " + s.FakeRet
	fakeFunc := "func" + fakeSig + " { " + s.FakeBody + " }"
	var b strings.Builder
	fmt.Fprintf(&b, "package %s\n\n", pkg)
	b.WriteString("import (\n\tfmt2 \"fmt\"\n")
	switch c.FileD {
	case "realImport":
		if filepath.Base(s.Path) == s.Name {
			fmt.Fprintf(&b, "\t%q\n", s.Path)
		} else {
			fmt.Fprintf(&b, "\t%s %q\n", s.Name, s.Path)
		}
	case "fakeImport":
		fmt.Fprintf(&b, "\t%s \"example.com/scopes/fake\"\n", s.Name)
	case "fakeNamed":
		// another package whose declared NAME is the std package's name, under its default local name
		fmt.Fprintf(&b, "\t\"example.com/scopes/fakes/%s\"\n", s.Name)
	case "fakeNamedAs":
		fmt.Fprintf(&b, "\tapp%s \"example.com/scopes/fakes/%s\"\n", s.Name, s.Name)
	case "dotReal":
		fmt.Fprintf(&b, "\t. %q\n", s.Path)
	case "dotFake":
		// another package with the same package NAME as the std one
		fmt.Fprintf(&b, "\t. \"example.com/scopes/fakes/%s\"\n", s.Name)
	}
	b.WriteString(")\n\n")
	b.WriteString("type R struct{}\n\nvar (\n\tgi int\n\tgs string\n\t_  = fmt2.Sprint\n\t_  = R{}\n)\n\n")
	if c.FileD == "fakeNamedAs" {
		fmt.Fprintf(&b, "var _ = app%s.%s\n\n", s.Name, s.Member)
	}
	if c.FileD == "realImport" || c.FileD == "fakeImport" || c.FileD == "fakeNamed" {
		// a use at package level, so that an import shadowed inside the function is not "imported and not used"
		fmt.Fprintf(&b, "var _ = %s.%s\n\n", s.Name, s.Member)
	}
	// package-level namesakes live in ANOTHER file of the package (the parser resolves identifiers per file only)
	var d strings.Builder
	fmt.Fprintf(&d, "package %s\n\n", pkg)
	if c.PkgD == "func" {
		fmt.Fprintf(&d, "func %s%s { %s }\n\n", s.Name, fakeSig, s.FakeBody)
	}
	if c.PkgD == "var" && s.Kind == "builtin" {
		fmt.Fprintf(&d, "var %s = func%s { %s }\n\n", s.Name, fakeSig, s.FakeBody)
	}
	if c.PkgD == "var" && s.Kind == "stdpkg" {
		fmt.Fprintf(&d, "type fakeT struct{}\n\nfunc (fakeT) %s%s { %s }\n\nvar %s fakeT\n\n", s.Member, fakeSig, s.FakeBody, s.Name)
	}
	// the type of a param / local namesake
	valType, valInit := "func"+fakeSig, fakeFunc
	if s.Kind == "stdpkg" {
		b.WriteString("type localT struct{}\n\n")
		fmt.Fprintf(&b, "func (localT) %s%s { %s }\n\n", s.Member, fakeSig, s.FakeBody)
		valType, valInit = "localT", "localT{}"
	}
	params := "xs, ys []int, ifs []interface{}, bs []byte, s, t string, fl float64"
	if c.ParamD == "param" {
		params += ", " + s.Name + " " + valType
	}
	fmt.Fprintf(&b, "func subjectUse(%s) {\n", params)
	if c.LocalD == "local" {
		// a nested block: parameters and the outermost block of the body share one scope
		fmt.Fprintf(&b, "\t{\n\t%s := %s\n", s.Name, valInit)
	}
	if s.Setup != "" {
		fmt.Fprintf(&b, "\t%s\n", s.Setup)
	}
	fmt.Fprintf(&b, "\t%s\n", trigger)
	if c.LocalD == "local" {
		b.WriteString("\t}\n")
	}
	b.WriteString("\t_, _, _, _, _, _, _, _ = xs, ys, ifs, bs, s, t, fl, gi\n}\n")
	files["s.go"] = b.String()
	if c.PkgD != "none" {
		files["d.go"] = d.String()
	}
	return files
}

const fakePkgSrc = `// Package fake: functions spelled like members of standard packages.
package fake

type R struct{}

var gi int
var gs string

func MustCompile(args ...interface{}) *R         { return nil }
func Compile(args ...interface{}) (*R, error)    { return nil, nil }
func Slice(args ...interface{})                  {}
func Join(args ...interface{}) string            { return "" }
func String(args ...interface{}) *string         { return &gs }
func Fatal(args ...interface{})                  {}
func Exit(args ...interface{})                   {}
func Compare(args ...interface{}) int            { return 0 }
func SplitN(args ...interface{}) []string        { return nil }
func Index(args ...interface{}) int              { return 0 }
func Sprint(args ...interface{}) string          { return "" }
func Sprintf(args ...interface{}) string         { return "" }
func NewRequest(args ...interface{}) (*R, error) { return nil, nil }
func Max(args ...interface{}) float64            { return 0 }
func New(args ...interface{}) error              { return nil }
func DeepEqual(args ...interface{}) bool         { return false }
`

// scopesCmd renders the cases exported by Scopes.tla for every subject, type-checks them (the model's WellFormed and
// Resolved predictions are compared with go/types), runs every checker on every rendered file (C01) and records the
// diagnostics that the subject's checkers emit on the trigger lines together with what the callee really denotes (C20).
func scopesCmd(args []string) {
	fs := flag.NewFlagSet("scopes", flag.ExitOnError)
	in := fs.String("in", "", "cases JSON (from Scopes.tla)")
	out := fs.String("out", "", "observations JSON")
	work := fs.String("work", "", "workspace directory (created)")
	only := fs.String("subjects", "", "comma list of subject ids (default all)")
	fs.Parse(args)
	data, err := os.ReadFile(*in)
	hx.Must(err)
	var cases []scopeCase
	hx.Must(json.Unmarshal(data, &cases))
	hx.Init()
	want := map[string]bool{}
	for _, x := range strings.Split(*only, ",") {
		if x != "" {
			want[x] = true
		}
	}
	hx.Must(os.MkdirAll(filepath.Join(*work, "fake"), 0o755))
	hx.Must(os.WriteFile(filepath.Join(*work, "go.mod"), []byte("module example.com/scopes\n\ngo 1.21\n"), 0o644))
	hx.Must(os.WriteFile(filepath.Join(*work, "fake", "fake.go"), []byte(fakePkgSrc), 0o644))
	for _, s := range subjects {
		if s.Kind == "stdpkg" {
			fd := filepath.Join(*work, "fakes", s.Name)
			hx.Must(os.MkdirAll(fd, 0o755))
			hx.Must(os.WriteFile(filepath.Join(fd, "fake.go"), []byte(strings.NewReplacer("package fake", "package "+s.Name, "type R struct", "type FR struct", "*R", "*FR").Replace(fakePkgSrc)), 0o644))
		}
	}
	type rendered struct {
		s   subject
		c   scopeCase
		pkg string
	}
	byPkg := map[string]rendered{}
	n := 0
	for _, s := range subjects {
		if len(want) > 0 && !want[s.ID] {
			continue
		}
		for _, c := range cases {
			if c.Kind != s.Kind || c.Variadic != s.Variadic {
				continue
			}
			n++
			pkg := fmt.Sprintf("c%04d", n)
			d := filepath.Join(*work, pkg)
			hx.Must(os.MkdirAll(d, 0o755))
			for fn, src := range renderScope(s, c, pkg) {
				hx.Must(os.WriteFile(filepath.Join(d, fn), []byte(src), 0o644))
			}
			byPkg["example.com/scopes/"+pkg] = rendered{s, c, pkg}
		}
	}
	fset := token.NewFileSet()
	pkgs, err := hx.Load(fset, *work, false, "./...")
	hx.Must(err)
	infos := hx.Infos()
	type diag struct {
		Checker string `json:"checker"`
		Text    string `json:"text"`
		Line    int    `json:"line"`
	}
	type obs struct {
		Case     string   `json:"case"`
		Subject  string   `json:"subject"`
		Pkg      string   `json:"pkg"`
		TypeOK   bool     `json:"typeOK"`
		TypeErr  string   `json:"typeErr,omitempty"`
		Resolved string   `json:"resolved"` // what go/types says the callee identifier denotes
		Real     bool     `json:"real"`
		Diags    []diag   `json:"diags"`  // diagnostics of the subject's checkers on trigger lines
		Panics   []string `json:"panics"` // checker: message (any checker)
		AllDiags int      `json:"allDiags"`
		Src      string   `json:"src"`
	}
	// one long-lived set of all checkers (constructed once, as the CLI does)
	lctx := linter.NewContext(fset, hx.Sizes)
	var lset []*linter.Checker
	for _, in := range infos {
		c, err := linter.NewChecker(lctx, in)
		hx.Must(err)
		lset = append(lset, c)
	}
	var res []obs
	for _, p := range pkgs {
		r, ok := byPkg[p.PkgPath]
		if !ok {
			continue
		}
		o := obs{Case: r.c.ID, Subject: r.s.ID, Pkg: r.pkg, TypeOK: len(p.Errors) == 0}
		if len(p.Errors) > 0 {
			o.TypeErr = p.Errors[0].Error()
		}
		if len(p.Syntax) == 0 || p.TypesInfo == nil {
			res = append(res, o)
			continue
		}
		f := p.Syntax[0]
		for _, sf := range p.Syntax {
			if filepath.Base(hx.FileName(fset, sf.Pos())) == "s.go" {
				f = sf
			}
		}
		src, _ := os.ReadFile(hx.FileName(fset, f.Pos()))
		calleeName := r.s.Name
		if r.c.FileD == "dotReal" || r.c.FileD == "dotFake" {
			calleeName = r.s.Member
		}
		if r.c.FileD == "fakeNamedAs" {
			calleeName = "app" + r.s.Name
		}
		o.Src = string(src)
		trig := map[int]bool{}
		for i, l := range strings.Split(string(src), "\n") {
			if strings.Contains(l, "// TRIGGER") {
				trig[i+1] = true
			}
		}
		// what does the callee identifier on the (first) trigger line denote?
		ast.Inspect(f, func(n ast.Node) bool {
			id, ok := n.(*ast.Ident)
			if !ok || id.Name != calleeName || !trig[fset.Position(id.Pos()).Line] || o.Resolved != "" {
				return true
			}
			obj := p.TypesInfo.Uses[id]
			switch ob := obj.(type) {
			case nil:
				o.Resolved = "unresolved"
			case *types.Builtin:
				o.Resolved = "universe"
				o.Real = r.s.Kind == "builtin"
			case *types.PkgName:
				if ob.Imported().Path() == r.s.Path {
					o.Resolved = "realImport"
					o.Real = true
				} else if ob.Imported().Name() == r.s.Name && ob.Name() == r.s.Name {
					o.Resolved = "fakeNamed"
				} else if ob.Imported().Name() == r.s.Name {
					o.Resolved = "fakeNamedAs"
				} else {
					o.Resolved = "fakeImport"
				}
			default:
				if ob.Pkg() != nil && ob.Pkg() != p.Types {
					// reached through a dot import
					if ob.Pkg().Path() == r.s.Path {
						o.Resolved, o.Real = "dotReal", true
					} else {
						o.Resolved = "dotFake"
					}
					return true
				}
				switch {
				case ob.Parent() == p.Types.Scope():
					o.Resolved = "pkg"
				case isParam(f, ob):
					o.Resolved = "param"
				default:
					o.Resolved = "local"
				}
			}
			return true
		})
		if !o.TypeOK {
			res = append(res, o)
			continue
		}
		u := &hx.Unit{Pkg: p, File: f, Phys: hx.FileName(fset, f.Pos()), Base: "s.go", ID: r.pkg}
		subj := map[string]bool{}
		for _, c := range r.s.Checkers {
			subj[c] = true
		}
		lctx.SetPackageInfo(p.TypesInfo, p.Types)
		lctx.SetFileInfo(u.Base, u.File)
		for ci, in := range infos {
			c := lset[ci]
			func() {
				defer func() {
					if pv := recover(); pv != nil {
						st := string(debug.Stack())
						at := ""
						for _, l := range strings.Split(st, "\n") {
							if strings.Contains(l, "/checkers/") && strings.Contains(l, ".go:") && !strings.Contains(l, "ruleguard_checker") {
								at = strings.TrimSpace(l)
								break
							}
						}
						o.Panics = append(o.Panics, fmt.Sprintf("%s: %v [%s]", in.Name, pv, at))
					}
				}()
				for _, w := range c.Check(u.File) {
					o.AllDiags++
					line := fset.Position(w.Pos).Line
					if subj[in.Name] && trig[line] {
						o.Diags = append(o.Diags, diag{in.Name, w.Text, line})
					}
				}
			}()
		}
		res = append(res, o)
	}
	b, _ := json.Marshal(res)
	hx.Must(os.WriteFile(*out, b, 0o644))
}

func isParam(f *ast.File, ob types.Object) bool {
	found := false
	ast.Inspect(f, func(n ast.Node) bool {
		fd, ok := n.(*ast.FuncDecl)
		if !ok || fd.Type.Params == nil {
			return true
		}
		for _, fl := range fd.Type.Params.List {
			for _, nm := range fl.Names {
				if nm.Pos() == ob.Pos() {
					found = true
				}
			}
		}
		return true
	})
	return found
}
