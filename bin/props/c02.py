"""C02 - diagnostics are a deterministic function of source, types and configuration.

Spec: Determinism.tla (self-composition of two runs; emission disciplines traversal / mapIter / sortedAfter: Deterministic holds
for traversal, is refuted for mapIter with >= 2 keys). B-extract: the places of the checkers package that emit while ranging over
a map (recomputed from the working tree). Binding: the same corpus (example files + the adversarial corpus with multi-trigger
files: several duplicated import groups, shadowed imports, identical-message rule hits) is analysed again and again by the real
checkers - by one long-lived set, and by newly constructed sets (rule files loaded afresh, overlapping user rules) - and the
recorded execution is validated by TraceLifecycle.tla with the FIRST observation of every (checker, file) as the reference;
across processes the real binary is run repeatedly at several -concurrency values and its output must be byte-identical.
"""
import json
import os
import subprocess

import vlib
from props import lifecycle_common as lc
from props import gen_common
from props import ws as wsmod

DCFG = """SPECIFICATION Spec
CONSTANTS
  Keys = {"k1", "k2", "k3"}
  Discipline = "%s"
INVARIANTS Deterministic
"""


def run(ctx):
    thorough = ctx.tier == "thorough"
    design = {}
    for d in ("traversal", "sortedAfter"):
        r = ctx.tlc("Determinism", cfg_text=DCFG % d, workers=2, timeout=120, expect="ok")
        design[d] = r.distinct
    r = ctx.tlc("Determinism", cfg_text=DCFG % "mapIter", workers=2, timeout=120, expect="violation")
    design["mapIter"] = "refuted: " + r.violated
    outp = ctx.path("mapscan.json")
    ctx.run_vh(["mapscan", "-out", outp])
    emitters = json.load(open(outp))["map_emitters"] or []

    gdir = gen_common.generate(ctx, "c02")
    runs = []
    a1 = ["-corpus", "examples,dir:" + gdir, "-mode", "repeat", "-repeats", "20" if thorough else "4", "-oblig", "c03"]
    runs.append(("same set", a1, None))
    rules = os.path.join(vlib.VERIF, "corpus", "rules", "overlap*.go")
    integ = os.path.join(vlib.REPO, "checkers", "testdata", "_integration", "ruleguard-multi", "rules*.go")
    a2 = ["-corpus", "dir:" + gdir, "-mode", "repeat", "-repeats", "40" if thorough else "12", "-reset-each-pass", "-oblig", "c03",
          "-checkers", "ruleguard,dupImport,importShadow", "-rgrules", "%s,%s" % (rules, integ)]
    runs.append(("new sets, overlapping user rules", a2, vlib.REPO))
    # map emitters found by the scan get extra repetitions on everything
    names = sorted({e["file"].replace("_checker.go", "").replace("dupImports", "dupImport") for e in emitters})
    if names:
        a3 = ["-corpus", "examples,dir:" + gdir, "-mode", "repeat", "-repeats", "60" if thorough else "25", "-oblig", "c03", "-checkers", ",".join(names)]
        runs.append(("map emitters", a3, None))
    # the order in which the files of a package were registered with the FileSet (go/packages parses them concurrently, so the
    # order of their position bases is a matter of scheduling) must not matter
    fo = ctx.path("fsetorder.json")
    ctx.run_vh(["fsetorder", "-dir", gdir, "-out", fo], timeout=1800)
    fres = json.load(open(fo))
    if fres["packages"] < 3:
        raise vlib.Infra("fsetorder: only %d multi-file packages in the corpus" % fres["packages"])
    for m in fres["mismatches"] or []:
        ctx.fail("FileSetOrder %s" % m["checker"], "%s reports different diagnostics for package %s when its files are registered with the FileSet in the opposite order: %s vs %s"
                 % (m["checker"], m["pkg"], (m["forward"] or [])[:3], (m["backward"] or [])[:3]), {"mismatch": m})
    events = states = checks = nontriv = 0
    first_trace = None
    for tag, args, cwd in runs:
        res, trace = lc.run_harness(ctx, "c02_%d" % len(ctx.tlc_runs), args, cwd=cwd)
        first_trace = first_trace or trace
        e, s = lc.judge(ctx, res, trace)
        events += e
        states += s
        checks += res["checks"]
        nontriv += res["nontrivial_checks"]
        if tag.startswith("new sets") and res["warnings"] == 0:
            raise vlib.Infra("the overlapping user rules produced no diagnostics (rule files not loaded?)")
        for n in res["nonconf"]:
            if n["kind"] == "ResultDiffers":
                ctx.fail("Nondeterministic %s" % n["checker"], "%s: %s reports different diagnostics for %s in two runs on the same input: %s"
                         % (tag, n["checker"], n["file"], " | ".join(n["detail"][:12])), {"cmd": "vh lifecycle " + " ".join(args), "nonconf": n})
            elif n["kind"] in ("Panic", "Timeout"):
                ctx.notes.append("%s of %s on %s" % (n["kind"], n["checker"], n["file"]))
    lc.canary(ctx, first_trace, lambda e: dict(e, got="deadbeef") if e["ev"] == "Walked" and e["got"] != "" else None)

    procs = cross_process(ctx, thorough)
    procs["analyzer"] = analyzer_repeats(ctx, thorough)
    procs["illtyped"] = illtyped_processes(ctx, thorough)
    st, tr = vlib.tlc_states_total(ctx)
    cov = {
        "states": st, "transitions": tr, "traces_validated_against_impl": len(runs),
        "events_validated": events, "checks_repeated": checks, "checks_with_warnings": nontriv,
        "map_emitters_in_tree": emitters, "processes": procs, "design": design, "exhaustive": False,
        "samples": [{"run": r[0], "args": r[1][:8]} for r in runs],
    }
    return ctx.finish("model_checking", cov, ["reference = the first observation of the same (checker, file) by the same code",
                                              "Go randomises map iteration per loop: k >= 2 keys and R repetitions expose an order dependence with probability >= 1 - 2^-(R-1)"])


def analyzer_repeats(ctx, thorough):
    """Parallel analyzer passes, repeated in one process: every repetition must report the same diagnostics."""
    from props import analyzer_common as ac
    fixed = ["badRegexp", "regexpSimplify", "regexpPattern", "regexpMust"]
    w = wsmod.make(ctx, "ws_c02an", 6, pick=fixed + [n for n in wsmod.GOOD if n not in fixed], adv=("dupimports", "shapes"))
    reps = 30 if thorough else 12
    rr, res = ac.analyze(ctx, w["dir"], flags="enable-all=true", repeat=reps)
    if res is None:
        ctx.fail("Crash analyzer", "parallel analyzer passes crashed the process: " + rr.stderr[-600:], {})
        return {"repeats": 0}
    base = None
    for i, run in enumerate(res["runs"]):
        if run.get("panic") or run.get("errors"):
            ctx.fail("AnalyzerRunFailed", "repetition %d of the parallel analyzer run failed: %s" % (i, run.get("panic") or run.get("errors")[:2]), {})
            continue
        d = run.get("diags")
        if base is None:
            base = d
        elif d != base:
            a = {json.dumps(x, sort_keys=True) for x in base}
            b = {json.dumps(x, sort_keys=True) for x in d}
            ctx.fail("Nondeterministic analyzer-parallel", "repetition %d of the same parallel analyzer run reports different diagnostics: %s"
                     % (i, sorted(a ^ b)[:3]), {"diff": sorted(a ^ b)[:10]})
    return {"repeats": reps, "diagnostics": len(base or [])}


def cross_process(ctx, thorough):
    binp = ctx.build_repo_bin("cmd/go-critic")
    w = wsmod.make(ctx, "ws_c02", 3, adv=("dupimports", "imports", "noimports", "shapes"))
    ncpu = os.cpu_count() or 4
    base = None
    n = 0
    for k in ([1, 2, ncpu] if thorough else [1, ncpu]):
        for rep in range(6 if thorough else 3):
            rc, lines, raw = wsmod.run_cli(binp, w["dir"], ["-enableAll", "-concurrency", str(k)] + w["pkgs"])
            n += 1
            if "panic:" in raw:
                ctx.fail("Crash", "go-critic crashed: " + raw[-500:], {})
                continue
            if base is None:
                base = raw
                if len(lines) < 10:
                    raise vlib.Infra("too few diagnostics on the C02 workspace")
            elif raw != base:
                a, b = base.splitlines(), raw.splitlines()
                i = next((j for j in range(min(len(a), len(b))) if a[j] != b[j]), min(len(a), len(b)))
                ctx.fail("OutputDiffersAcrossProcesses", "run %d (-concurrency %d) differs from the first run at line %d: %r vs %r"
                         % (n, k, i + 1, a[i] if i < len(a) else None, b[i] if i < len(b) else None), {"k": k})
    return {"invocations": n, "lines": len((base or "").splitlines())}


def illtyped_processes(ctx, thorough):
    """The check command also analyses packages that do not type-check (corpus/illtyped: imports sharing one local name, things
    declared twice, identifiers without declaration). go/types records an object for every one of the clashing imports, so tables
    keyed by object hold several entries per name - Determinism.tla's mapIter discipline with k >= 2 keys. The output of repeated
    processes must be byte-identical."""
    import shutil
    binp = ctx.build_repo_bin("cmd/go-critic")
    d = os.path.join(ctx.scratch, "illtyped_ws")
    if not os.path.exists(d):
        shutil.copytree(os.path.join(vlib.VERIF, "corpus", "illtyped"), d)
    base = None
    n = 0
    reps = 40 if thorough else 14
    for rep in range(reps):
        rc, lines, raw = wsmod.run_cli(binp, d, ["-enableAll", "./..."])
        n += 1
        if "panic:" in raw:
            ctx.fail("Crash", "go-critic crashed on corpus/illtyped: " + raw[-500:], {})
            break
        diag = [l for l in lines if ": importShadow: " in l or ": dupImport: " in l]
        if base is None:
            base = raw
            pos = [l.split(": ")[0] for l in diag if "importShadow" in l]
            if len(pos) - len(set(pos)) < 3:
                raise vlib.Infra("corpus/illtyped: fewer than 3 places with several importShadow diagnostics (%d lines)" % len(diag))
        elif raw != base:
            a, b = base.splitlines(), raw.splitlines()
            i = next((j for j in range(min(len(a), len(b))) if a[j] != b[j]), min(len(a), len(b)))
            chk = (a[i].split(": ") + ["?", "?"])[1] if i < len(a) else "?"
            ctx.fail("OutputDiffersAcrossProcesses illtyped %s" % chk,
                     "package that does not type-check (several imports under one name): run %d of `check -enableAll ./...` differs from the first at line %d: %r vs %r"
                     % (n, i + 1, a[i] if i < len(a) else None, b[i] if i < len(b) else None), {"line": i + 1})
            break
    return {"invocations": n, "lines": len((base or "").splitlines())}
