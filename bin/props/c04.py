"""C04 - results do not depend on scheduling; concurrent use is race-free.

Spec: FanOut.tla (semaphore, WaitGroup barrier, private slots, ordered printing; AtMostK, PrintAfterAll, SlotsComplete,
NoCtxWriteDuringCheck, OutEqualsSequential; every interleaving for small N, K; what-ifs refuted) and Analyzer.tla
(concurrent passes, mutex-protected cache and latch; NoParamRace, WrittenOnce). Binding: (a) runs of the real binary at
several -concurrency values are recorded through the verif hooks and validated by TraceFanOut.tla (FanOut instantiated over
the trace), and their output must be byte-identical to the sequential run; (b) the race detector on the real binary
(no recorder installed - hooks add no synchronisation) with more tokens than checkers, and on the analyzer driven by the
x/tools driver with parallel passes vs sequential passes; (c) recorded analyzer runs validated by TraceAnalyzer.tla.
"""
import json
import os
import shutil
import subprocess

import vlib
from props import ws as wsmod
from props import analyzer_common as ac

FCFG = """SPECIFICATION Spec
CONSTANTS
  N = %d
  K = %d
  NFiles = 2
  WaitBeforePrint = %s
  ReleaseAfterCheck = %s
  PrivateSlots = %s
  TokenReturned = TRUE
  RecordSched = FALSE
INVARIANTS %s
VIEW View
"""
LCFG = """SPECIFICATION LiveSpec
CONSTANTS
  N = %d
  K = %d
  NFiles = 2
  WaitBeforePrint = TRUE
  ReleaseAfterCheck = TRUE
  PrivateSlots = TRUE
  TokenReturned = %s
  RecordSched = FALSE
PROPERTIES Terminates EveryFilePrinted
"""
INV = "AtMostK NoCtxWriteDuringCheck PrintAfterAll SlotsComplete OutEqualsSequential TokensOK"


def run(ctx):
    thorough = ctx.tier == "thorough"
    design = {}
    n = 5 if thorough else 4
    for k in (range(1, n + 1) if thorough else (1, 2, n)):
        r = ctx.tlc("FanOut", cfg_text=FCFG % (n, k, "TRUE", "TRUE", "TRUE", INV), workers=8, timeout=900, expect="ok")
        design["N%d_K%d" % (n, k)] = r.distinct
    for name, flags, inv in (("noWait", ("FALSE", "TRUE", "TRUE"), "PrintAfterAll"),
                             ("earlyRelease", ("TRUE", "FALSE", "TRUE"), "AtMostK"),
                             ("sharedSlot", ("TRUE", "TRUE", "FALSE"), "SlotsComplete")):
        r = ctx.tlc("FanOut", cfg_text=FCFG % ((3, 2) + flags + (inv,)), workers=4, timeout=300, expect="violation")
        design["whatif_" + name] = r.violated
    # liveness under weak fairness: the run terminates and every file is printed; a token that is never returned starves
    # the spawn loop as soon as there are more checkers than tokens (and only then: the semaphore is per file)
    r = ctx.tlc("FanOut", cfg_text=LCFG % (3, 2, "TRUE"), workers=4, timeout=900, expect="ok")
    design["liveness_N3_K2"] = r.distinct
    design["whatif_tokenKept_N3_K2"] = ctx.tlc("FanOut", cfg_text=LCFG % (3, 2, "FALSE"), workers=4, timeout=900, expect="violation").violated
    r = ctx.tlc("FanOut", cfg_text=LCFG % (2, 2, "FALSE"), workers=4, timeout=900, expect="ok")
    design["tokenKept_but_K_ge_N_terminates"] = r.distinct
    design["analyzer"] = ac.design(ctx)

    # (a) recorded runs of the real binary
    binp = ctx.build_repo_bin("cmd/go-critic")
    # regexp-, size- and generics-heavy packages are always present: shared parsers / size caches are classic shared state
    # ... and badCond's examples (reversed counting loops: a checker that formats a modified node must work on a copy)
    fixed = ["badRegexp", "regexpSimplify", "regexpPattern", "rangeValCopy", "hugeParam", "badCond"]
    rest = [n for n in wsmod.GOOD if n not in fixed]
    ctx.rng.shuffle(rest)
    w = wsmod.make(ctx, "ws_c04", 8 if thorough else 6, pick=fixed + rest, adv=("sizes", "generics", "shapes"))
    ncpu = os.cpu_count() or 4
    ks = [1, 2, 3, ncpu, 200] if thorough else [1, 2, ncpu]
    base = None
    traces = 0
    events = 0
    for k in ks:
        tf = ctx.spec_path("cli_k%d.ndjson" % k)
        rc, lines, raw = wsmod.run_cli(binp, w["dir"], ["-enableAll", "-concurrency", str(k)] + w["pkgs"], env={"GOCRITIC_VERIF_TRACE": tf})
        if "panic:" in raw or "DATA RACE" in raw:
            ctx.fail("CLICrash", "real binary crashed at -concurrency %d: %s" % (k, raw[-800:]), {"k": k})
            continue
        if base is None:
            base = lines
            if len(lines) < 5:
                raise vlib.Infra("too few diagnostics on the C04 workspace")
        elif lines != base:
            diff = [l for l in lines if l not in base][:5] + [l for l in base if l not in lines][:5]
            ctx.fail("OutputDependsOnConcurrency", "-concurrency %d output differs from -concurrency %d: %s" % (k, ks[0], diff), {"k": k, "diff": diff})
        ok, bad, states = ctx.validate_trace("TraceFanOut", tf, chunks=1, env={"K": str(k)}, timeout=900)
        nl = sum(1 for _ in open(tf))
        events += nl
        traces += 1
        if not ok:
            line = open(tf).read().splitlines()[bad - 1] if bad and bad <= nl else "<end>"
            os.makedirs(os.path.join(vlib.REPLAYS, "C04"), exist_ok=True)
            shutil.copy(tf, os.path.join(vlib.REPLAYS, "C04", "rejected_k%d.ndjson" % k))
            ctx.fail("TraceRejected", "TraceFanOut rejects the recorded run at -concurrency %d, line %d: %s" % (k, bad, line),
                     {"k": k, "line": bad, "event": line, "workspace": w["examples"]})
    # canary: the K=2 run claimed as K=1 must be rejected (when it really overlapped) - use the widest run
    tfw = ctx.spec_path("cli_k%d.ndjson" % ks[-1])
    ok, bad, _ = ctx.validate_trace("TraceFanOut", tfw, chunks=1, env={"K": "1"}, timeout=900)
    design["canary_K1_rejected"] = (not ok)
    # canary 2: a Print event moved before the Barrier must be rejected
    canary_reorder(ctx, ctx.spec_path("cli_k%d.ndjson" % ks[0]))

    # (b) race detector
    # instances of one checker constructed on separate contexts (what concurrent analysis passes have) must not reach a common
    # object that changes while one of them works: every checker twice, object graphs walked by reflection, the common objects
    # printed before and after one instance analysed the checker's example files
    shp = ctx.path("sharing.json")
    ctx.run_vh(["sharing", "-out", shp], timeout=1800)
    sh = json.load(open(shp))
    if sh["checkers"] < 100:
        raise vlib.Infra("sharing probe saw only %d checkers" % sh["checkers"])
    for o in sh["shared"] or []:
        if o["written"]:
            ctx.fail("SharedMutableState %s" % o["checker"], "two instances of %s share a %s (%s) that changes while one of them analyses a file"
                     % (o["checker"], o["type"], o["path"]), {"object": o})
    design["instances_probed"] = sh["checkers"]
    design["shared_readonly_objects"] = len([o for o in sh["shared"] or [] if not o["written"]])
    race = race_runs(ctx, w, thorough)
    # (c) analyzer passes
    an = ac.concurrent_runs(ctx, w, thorough)

    st, tr = vlib.tlc_states_total(ctx)
    cov = {
        "states": st, "transitions": tr, "traces_validated_against_impl": traces + an["traces"],
        "events_validated": events + an["events"], "concurrency_values": ks, "diagnostic_lines": len(base or []),
        "design": design, "race": race, "analyzer": an, "exhaustive": False,
        "samples": (base or [])[:3],
    }
    return ctx.finish("model_checking", cov, [
        "race freedom = FanOut structure + C05 + race-detector runs without happens-before edges between checkers (shadow-memory window is trusted)",
        "analyzer.DisableCache (documented test-only API) is not claimed",
    ])


def canary_reorder(ctx, tf):
    lines = open(tf).read().splitlines()
    ib = next((i for i, l in enumerate(lines) if '"ev":"Barrier"' in l), None)
    ip = next((i for i, l in enumerate(lines) if '"ev":"PrintSlot"' in l), None)
    if ib is None or ip is None:
        raise vlib.Infra("canary: no Barrier/PrintSlot in recorded trace")
    lines[ib], lines[ip] = lines[ip], lines[ib]
    cp = ctx.spec_path("canary_reorder.ndjson")
    open(cp, "w").write("\n".join(lines) + "\n")
    ok, bad, _ = ctx.validate_trace("TraceFanOut", cp, chunks=1, env={"K": "1"}, timeout=300)
    if ok:
        raise vlib.Infra("canary: a PrintSlot before the Barrier was accepted")


def race_runs(ctx, w, thorough):
    binr = ctx.build_repo_bin("cmd/go-critic", race=True)
    out = {"runs": 0}
    base = None
    for k in ([200, 2, 1] if thorough else [200, 1]):
        rc, lines, raw = wsmod.run_cli(binr, w["dir"], ["-enableAll", "-concurrency", str(k)] + w["pkgs"], env={"GORACE": "halt_on_error=0"})
        out["runs"] += 1
        if "DATA RACE" in raw:
            i = raw.index("DATA RACE")
            ctx.fail("DataRace cli", "race detector report at -concurrency %d: %s" % (k, raw[i:i + 1500]), {"k": k, "cmd": "go-critic(race) check -enableAll -concurrency %d" % k})
            lines = [l for l in lines if not l.startswith(("=====", "WARNING", "  ", "Goroutine", "Previous", "Read at", "Write at", "Found"))]
        if base is None:
            base = sorted(lines)
        elif sorted(lines) != base and "DATA RACE" not in raw:
            ctx.fail("OutputDependsOnConcurrency race-build", "-concurrency %d differs under the race build" % k, {"k": k})
    return out


def replay(ctx, path):
    return run(ctx)
