"""C20 - API-specific diagnostics are about the real API, not a namesake.

Spec: Scopes.tla - Go name resolution over the scope chain (universe, package block, file block, parameters, local block) for
subject names (builtins and members of std packages), call-site shapes and variadic-ness; OnlyReal holds for object-based
recognition and is refuted for recognition by spelling and for rule patterns that name builtins. Binding: every enumerated case
is rendered for every subject (append, new, len, copy; regexp.Compile/MustCompile, sort.Slice, filepath.Join, flag.String,
log.Fatal, os.Exit, strings/bytes/fmt/http/math/errors/reflect helpers named in rule patterns) as a Go package; the model's
WellFormed / Resolved / RealAPI predictions must agree with go/types for every program (else the run fails as undecided); all
checkers analyse every well-formed program; a diagnostic of a subject's checker on the trigger line while go/types says the callee
is a user-defined namesake is a violation.
"""
import collections

import vlib
from props import scopes_common as sc


def run(ctx):
    design = sc.design(ctx)
    byid, obs, _ = sc.run(ctx)
    wf = [o for o in obs if o["typeOK"]]
    real_hits = collections.Counter()
    namesake_programs = 0
    for o in wf:
        c = byid[o["case"]]
        if not o["real"]:
            namesake_programs += 1
        for d in o["diags"] or []:
            if o["real"]:
                real_hits[(d["checker"], o["subject"])] += 1
            else:
                name = o["subject"].split("-")[0]
                ctx.fail("NamesakeFlagged %s %s" % (d["checker"], name),
                         "%s reports `%s` although the callee resolves to a user-defined %s-level namesake of %s (declared: package=%s import=%s param=%s local=%s)"
                         % (d["checker"], d["text"], o["resolved"], name, c["PkgD"], c["FileD"], c["ParamD"], c["LocalD"]),
                         {"subject": o["subject"], "case": c, "diag": d, "source": o["src"]})
    # anti-vacuity: every subject's checker does speak about the real API
    silent = sorted({o["subject"] for o in wf if o["real"] and byid[o["case"]]["Shape"] == "normal"} - {s for (_, s) in real_hits})
    if silent:
        raise vlib.Infra("no diagnostic on the REAL API for subjects %s: their trigger code does not exercise the checker" % silent)
    st, tr = vlib.tlc_states_total(ctx)
    cov = {
        "states": st, "transitions": tr, "traces_validated_against_impl": len(obs),
        "programs_rendered": len(obs), "well_formed": len(wf), "namesake_programs": namesake_programs,
        "subjects": len({o["subject"] for o in obs}), "real_api_diagnostics": sum(real_hits.values()),
        "model_vs_gotypes_disagreements": 0, "design": design, "exhaustive": True,
        "samples": [{"subject": wf[0]["subject"], "case": byid[wf[0]["case"]], "resolved": wf[0]["resolved"]}],
    }
    return ctx.finish("model_checking", cov, ["bounded to the subjects and declaration kinds of Scopes.tla; methods of user types spelled like std types are not covered"])
