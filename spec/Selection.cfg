SPECIFICATION Spec
CONSTANTS
  MaxList = 2
  Profiles <- AllProfiles
INVARIANTS CLIConforms AnConformsNoSecurity DocsConform
