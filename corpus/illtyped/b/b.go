package b

var B = 2

func Get() int { return B }
