SPECIFICATION SpecLoad
CONSTANTS
  MaxFiles = 2
  CountOnlySuccessful = TRUE
INVARIANTS Conforms
