package main

import (
	"encoding/json"
	"flag"
	"fmt"
	"go/token"
	"os"
	"sort"
	"strings"

	"verifharness/hx"
)

func init() { commands["direct"] = directCmd }

// directCmd runs every registered checker (fresh instance per file, registered parameter values,
// optional overrides) directly through the linter API over the packages of a directory.
func directCmd(args []string) {
	fs := flag.NewFlagSet("direct", flag.ExitOnError)
	dir := fs.String("dir", ".", "workspace")
	pat := fs.String("patterns", "./...", "comma list of patterns")
	out := fs.String("out", "", "output JSON")
	params := fs.String("params", "default", "parameter overrides (see lifecycle -params)")
	only := fs.String("checkers", "", "comma list of checkers (default all)")
	goVer := fs.String("go", "", "target Go version")
	tests := fs.Bool("tests", false, "load test variants")
	fs.Parse(args)
	hx.Init()
	fset := token.NewFileSet()
	pkgs, err := hx.Load(fset, *dir, *tests, strings.Split(*pat, ",")...)
	hx.Must(err)
	infos := hx.Infos()
	applyParams(infos, *params)
	want := map[string]bool{}
	for _, c := range strings.Split(*only, ",") {
		if c != "" {
			want[c] = true
		}
	}
	type wj struct {
		Pos     string `json:"pos"`
		Checker string `json:"checker"`
		Text    string `json:"text"`
		Fix     string `json:"fix,omitempty"`
		File    string `json:"file"`
		Line    int    `json:"line"`
	}
	var ws []wj
	var errs []string
	for _, u := range hx.Units(fset, pkgs) {
		for _, in := range infos {
			if len(want) > 0 && !want[in.Name] {
				continue
			}
			_, warns, err := hx.Fresh(fset, in, u, *goVer)
			if err != nil {
				errs = append(errs, in.Name+" on "+u.ID+": "+err.Error())
				continue
			}
			for _, w := range warns {
				j := wj{Pos: fset.Position(w.Pos).String(), Checker: in.Name, Text: w.Text, File: u.Phys, Line: fset.Position(w.Pos).Line}
				if w.HasQuickFix() {
					j.Fix = fmt.Sprintf("%d-%d %q", fset.Position(w.Suggestion.From).Offset, fset.Position(w.Suggestion.To).Offset, w.Suggestion.Replacement)
				}
				ws = append(ws, j)
			}
		}
	}
	sort.SliceStable(ws, func(i, j int) bool { return ws[i].Pos < ws[j].Pos })
	b, _ := json.MarshalIndent(map[string]interface{}{"warnings": ws, "errors": errs, "packages": len(pkgs)}, "", " ")
	if *out == "" {
		os.Stdout.Write(b)
	} else {
		hx.Must(os.WriteFile(*out, b, 0o644))
	}
}
