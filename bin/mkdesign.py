#!/usr/bin/env python3
"""Insert / refresh section 0 of DESIGN.md from DESIGN_part0.md and seeded/MATRIX.json (the matrix table is generated)."""
import json
import os
import re

V = os.path.dirname(os.path.dirname(os.path.abspath(__file__)))
B, E = "<!-- PART0 BEGIN -->", "<!-- PART0 END -->"


def matrix_table():
    p = os.path.join(V, "seeded", "MATRIX.json")
    if not os.path.exists(p):
        return "(matrix not generated yet)"
    m = json.load(open(p))
    rows = ["| change | what it does (from the author's README) | detected by | first violation reported |", "|---|---|---|---|"]
    for sid in sorted(m):
        d = os.path.join(V, "seeded", sid)
        meta = json.load(open(os.path.join(d, "meta.json")))
        title = meta.get("title")
        if not title:
            rd = [f for f in os.listdir(d) if f.lower().startswith("readme")]
            title = open(os.path.join(d, rd[0])).read().splitlines()[0].lstrip("# ").strip() if rd else ""
        title = re.sub(r"^C\d\d[- ]*(mutation|mut)?\s*\d*\s*[-:–]*\s*", "", title, flags=re.I)
        res = m[sid]["results"]
        det = ", ".join(c for c, v in sorted(res.items()) if v == "DETECTED") or "-"
        other = ", ".join("%s %s" % (c, v) for c, v in sorted(res.items()) if v != "DETECTED")
        note = meta.get("status_note", "")
        fv = (m[sid].get("first_violation") or "").replace("|", "\\|")[:140]
        rows.append("| %s | %s | %s%s | %s |" % (sid, title.replace("|", "\\|")[:110], det, (" (" + other + ")") if other else "", (note + " " if note else "") + fv))
    n = len(m)
    det = sum(1 for v in m.values() if "DETECTED" in v["results"].values())
    return "%d of %d seeded changes are detected by at least one check on the current tree.\n\n%s" % (det, n, "\n".join(rows))


def main():
    part0 = open(os.path.join(V, "DESIGN_part0.md")).read().replace("@MATRIX@", matrix_table())
    dp = os.path.join(V, "DESIGN.md")
    s = open(dp).read()
    block = "%s\n%s\n%s\n" % (B, part0, E)
    if B in s:
        s = s[:s.index(B)] + block + s[s.index(E) + len(E) + 1:]
    else:
        marker = "---------------------------------------------------------------------------------------------------\n\n## 1."
        s = s.replace(marker, block + "\n" + marker, 1)
    open(dp, "w").write(s)


if __name__ == "__main__":
    main()
