package hx

import (
	"fmt"
	"go/ast"
	"go/token"
	"go/types"
	"hash"
	"hash/fnv"
	"reflect"
	"sort"

	"github.com/go-critic/go-critic/checkers/rulesdata"
	"github.com/go-critic/go-critic/linter"
)

// Fingerprinter computes structural fingerprints of syntax trees by a reflection
// walk over the whole node graph: every field of every node, positions, Obj/Scope
// links, comment lists, and the aliasing structure (a pointer or slice reached a
// second time is hashed as a back-reference to its first visit).
type fpKey struct {
	p uintptr
	t reflect.Type
}

type fpWalker struct {
	h    hash.Hash64
	seen map[fpKey]int
}

func (w *fpWalker) str(s string) { w.h.Write([]byte(s)); w.h.Write([]byte{0}) }
func (w *fpWalker) num(n uint64) {
	var b [8]byte
	for i := 0; i < 8; i++ {
		b[i] = byte(n >> (8 * i))
	}
	w.h.Write(b[:])
}

func (w *fpWalker) walk(v reflect.Value, depth int) {
	switch v.Kind() {
	case reflect.Ptr:
		if v.IsNil() {
			w.str("nil")
			return
		}
		p := fpKey{v.Pointer(), v.Type()}
		if id, ok := w.seen[p]; ok {
			w.str("ref")
			w.num(uint64(id))
			return
		}
		w.seen[p] = len(w.seen)
		w.str("*" + v.Type().Elem().Name())
		w.walk(v.Elem(), depth+1)
	case reflect.Interface:
		if v.IsNil() {
			w.str("nil")
			return
		}
		w.walk(v.Elem(), depth+1)
	case reflect.Struct:
		t := v.Type()
		w.str(t.Name())
		for i := 0; i < v.NumField(); i++ {
			f := v.Field(i)
			if !t.Field(i).IsExported() {
				// unexported fields of go/ast types do not exist; of other types: skip
				continue
			}
			w.walk(f, depth+1)
		}
	case reflect.Slice:
		if v.IsNil() {
			w.str("nilslice")
			return
		}
		w.str("[]")
		w.num(uint64(v.Len()))
		if v.Len() > 0 {
			p := fpKey{v.Pointer(), v.Type()}
			// identity of the backing array start: shared comment slices etc.
			if id, ok := w.seen[p]; ok {
				w.str("sref")
				w.num(uint64(id))
			} else {
				w.seen[p] = len(w.seen)
			}
		}
		for i := 0; i < v.Len(); i++ {
			w.walk(v.Index(i), depth+1)
		}
	case reflect.Map:
		// ast.Scope.Objects and ast.File.Unresolved-like maps: hash order-independently
		if v.IsNil() {
			w.str("nilmap")
			return
		}
		w.str("map")
		w.num(uint64(v.Len()))
		keys := v.MapKeys()
		if len(keys) > 0 && keys[0].Kind() == reflect.String {
			sort.Slice(keys, func(i, j int) bool { return keys[i].String() < keys[j].String() })
			for _, k := range keys {
				w.str(k.String())
				w.walk(v.MapIndex(k), depth+1)
			}
		}
	case reflect.String:
		w.str(v.String())
	case reflect.Int, reflect.Int8, reflect.Int16, reflect.Int32, reflect.Int64:
		w.num(uint64(v.Int()))
	case reflect.Uint, reflect.Uint8, reflect.Uint16, reflect.Uint32, reflect.Uint64, reflect.Uintptr:
		w.num(v.Uint())
	case reflect.Bool:
		if v.Bool() {
			w.num(1)
		} else {
			w.num(0)
		}
	case reflect.Func, reflect.Chan, reflect.UnsafePointer:
		w.str("opaque")
	default:
		w.str(fmt.Sprint(v.Interface()))
	}
}

// FileFP is the structural fingerprint of one syntax tree.
func FileFP(f *ast.File) uint64 {
	w := &fpWalker{h: fnv.New64a(), seen: map[fpKey]int{}}
	w.walk(reflect.ValueOf(f), 0)
	return w.h.Sum64()
}

// InfoFP fingerprints the entries of a types.Info that belong to the nodes of file f
// (types and constant values of expressions, definitions, uses, selections, implicits,
// scopes, instances), plus the sizes of all maps.
func InfoFP(info *types.Info, f *ast.File) uint64 {
	h := fnv.New64a()
	put := func(s string) { h.Write([]byte(s)); h.Write([]byte{0}) }
	put(fmt.Sprint(len(info.Types), len(info.Defs), len(info.Uses), len(info.Implicits), len(info.Selections), len(info.Scopes), len(info.Instances)))
	n := 0
	ast.Inspect(f, func(node ast.Node) bool {
		if node == nil {
			return true
		}
		n++
		if e, ok := node.(ast.Expr); ok {
			if tv, ok := info.Types[e]; ok {
				put(fmt.Sprintf("T%d", n))
				if tv.Type != nil {
					put(tv.Type.String())
				}
				if tv.Value != nil {
					put(tv.Value.ExactString())
				}
				put(fmt.Sprint(tv.IsValue(), tv.IsType(), tv.IsBuiltin(), tv.IsNil(), tv.Addressable(), tv.Assignable(), tv.HasOk()))
			}
		}
		if id, ok := node.(*ast.Ident); ok {
			if o, ok := info.Defs[id]; ok {
				put(fmt.Sprintf("D%d", n))
				put(objString(o))
			}
			if o, ok := info.Uses[id]; ok {
				put(fmt.Sprintf("U%d", n))
				put(objString(o))
			}
			if in, ok := info.Instances[id]; ok {
				put(fmt.Sprintf("I%d", n))
				if in.Type != nil {
					put(in.Type.String())
				}
			}
		}
		if o, ok := info.Implicits[node]; ok {
			put(fmt.Sprintf("M%d", n))
			put(objString(o))
		}
		if se, ok := node.(*ast.SelectorExpr); ok {
			if s, ok := info.Selections[se]; ok {
				put(fmt.Sprintf("S%d", n))
				put(s.String())
			}
		}
		if sc, ok := info.Scopes[node]; ok {
			put(fmt.Sprintf("C%d %d %d %d", n, sc.Len(), sc.Pos(), sc.End()))
		}
		return true
	})
	return h.Sum64()
}

func objString(o types.Object) string {
	if o == nil {
		return "<nilobj>"
	}
	return fmt.Sprintf("%T %s %d", o, o.String(), o.Pos())
}

// CtxFP fingerprints the shared linter.Context (everything checkers may read).
func CtxFP(c *linter.Context) uint64 {
	h := fnv.New64a()
	put := func(s string) { h.Write([]byte(s)); h.Write([]byte{0}) }
	put(fmt.Sprintf("%p %p %p %v %q %v", c.TypesInfo, c.FileSet, c.Pkg, c.GoVersion, c.Filename, c.Require))
	put(fmt.Sprintf("%v", c.SizesInfo))
	var objs []string
	for k, v := range c.PkgObjects {
		objs = append(objs, fmt.Sprintf("%p=%s", k, v))
	}
	sort.Strings(objs)
	put(fmt.Sprint(objs))
	var rn []string
	for k, v := range c.PkgRenames {
		rn = append(rn, k+"="+v)
	}
	sort.Strings(rn)
	put(fmt.Sprint(rn))
	return h.Sum64()
}

// RegistryFP fingerprints the registered checker metadata and parameter values.
func RegistryFP() uint64 {
	h := fnv.New64a()
	put := func(s string) { h.Write([]byte(s)); h.Write([]byte{0}) }
	for _, info := range linter.GetCheckersInfo() {
		put(info.Name)
		put(fmt.Sprint(info.Tags))
		put(info.Summary + info.Details + info.Before + info.After + info.Note)
		put(fmt.Sprint(info.EmbeddedRuleguard))
		var ps []string
		for k, p := range info.Params {
			ps = append(ps, fmt.Sprintf("%s=%#v/%s", k, p.Value, p.Usage))
		}
		sort.Strings(ps)
		put(fmt.Sprint(ps))
	}
	// the shipped rule data the embedded checkers are built from
	if f := rulesdata.PrecompiledRules; f != nil {
		put(fmt.Sprint(len(f.RuleGroups)))
		for _, g := range f.RuleGroups {
			put(fmt.Sprintf("%s/%d/%v/%s", g.Name, len(g.Rules), g.DocTags, g.DocSummary))
		}
	}
	return h.Sum64()
}

var _ = token.NoPos
