// Package gated: constructs for which newer standard-library helpers exist (rules gated by the target Go version).
package gated

import (
	"bytes"
	"strings"
	"sync"
	"time"
)

func times(t time.Time) (int64, int64) {
	return t.Unix() / 1000, t.UnixNano() * 1000
}

func cut(s string) (string, string) {
	i := strings.Index(s, "=")
	if i == -1 {
		return s, ""
	}
	k, v := s[:i], s[i+1:]
	return k, v
}

func cutBytes(b []byte) bool {
	i := bytes.Index(b, []byte(":"))
	return i >= 0
}

func contains(s string) bool {
	return strings.Index(s, "x") != -1 || strings.Index(s, "y") >= 0
}

func loadAndDelete(m *sync.Map, k string) interface{} {
	v, ok := m.Load(k)
	if ok {
		m.Delete(k)
		return v
	}
	return nil
}

func clearSlice(xs []int, bs []bool) {
	for i := range xs {
		xs[i] = 0
	}
	for i := range bs {
		bs[i] = false
	}
}

func clearMap(m map[string]int) {
	for k := range m {
		delete(m, k)
	}
}

func octal() (int, int) {
	return 0644, 0o755
}

func replaceAll(s string) string {
	return strings.Replace(s, "a", "b", -1)
}

func once(f func()) func() {
	var o sync.Once
	return func() { o.Do(f) }
}

var globalMap sync.Map

type registry struct {
	entries sync.Map
	ptr     *sync.Map
}

func (r *registry) take(k string) interface{} {
	v, ok := r.entries.Load(k)
	if ok {
		r.entries.Delete(k)
		return v
	}
	w, ok := r.ptr.Load(k)
	if ok {
		r.ptr.Delete(k)
		return w
	}
	return nil
}

func takeGlobal(k string) interface{} {
	v, ok := globalMap.Load(k)
	if ok {
		globalMap.Delete(k)
		return v
	}
	return nil
}

// receiver shapes: pointers, fields, defined types, values behind calls (a version gate must not depend on the shape)
type stamp struct {
	at  time.Time
	ptr *time.Time
}

type myTime = time.Time

func timesPtr(tp *time.Time, s stamp, ps *stamp, a myTime) (int64, int64, int64, int64, int64, int64) {
	return tp.Unix() / 1000, tp.UnixNano() * 1000, s.at.UnixNano() / 1e6, ps.ptr.UnixNano() / 1000000, a.Unix() / 1000, (*tp).UnixNano() / 1e3
}

func nowTimes() (int64, int64) {
	return time.Now().UnixNano() / 1e6, time.Now().Unix() / 1000
}

func cutShapes(ps *string, h struct{ s string }) (string, string, string, string) {
	i := strings.Index(*ps, "=")
	a, b := (*ps)[:i], (*ps)[i+1:]
	j := strings.Index(h.s, ":")
	c, d := h.s[:j], h.s[j+1:]
	return a, b, c, d
}

func cutIf(s string) (k, v string) {
	if i := strings.Index(s, "="); i != -1 {
		k, v = s[:i], s[i+1:]
	}
	return
}
