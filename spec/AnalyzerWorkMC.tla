--------------------------- MODULE AnalyzerWorkMC ---------------------------
(* Bounded instance of AnalyzerWork: package p in two variants (pass 1 = p with file "a", pass 2 =  *)
(* "p [p.test]" with files "a" and "t") and an unrelated package (pass 3, file "b"); two checkers. *)
(* VariantDep: checker k1's verdict on the shared file "a" depends on the variant.                 *)
EXTENDS Naturals, Sequences
CONSTANTS Memo, VariantDep
VARIABLES wpc, fi, ci, out, delivered, memo
D(f, c, v) == [file |-> f, c |-> c, v |-> v]
MCPasses == {1, 2, 3}
MCFilesOf == [p \in MCPasses |-> CASE p = 1 -> <<"a">> [] p = 2 -> <<"a", "t">> [] OTHER -> <<"b">>]
MCCheckers == <<"k1", "k2">>
MCVerdict == [p \in MCPasses |-> [f \in {"a", "t", "b"} |-> [c \in {"k1", "k2"} |->
    CASE f = "a" /\ c = "k1" -> IF VariantDep /\ p = 2 THEN <<D("a", "k1", "test")>> ELSE <<>>
      [] f = "a" /\ c = "k2" -> <<D("a", "k2", "x"), D("a", "k2", "y")>>
      [] f = "t" /\ c = "k2" -> <<D("t", "k2", "x")>>
      [] f = "b" /\ c = "k1" -> <<D("b", "k1", "x")>>
      [] OTHER -> <<>>]]]
INSTANCE AnalyzerWork WITH Passes <- MCPasses, FilesOf <- MCFilesOf, Checkers <- MCCheckers, Verdict <- MCVerdict
=============================================================================
