package main

import (
	"encoding/json"
	"flag"
	"fmt"
	"go/token"
	"os"
	"sort"
	"strings"
	"sync"

	"github.com/go-critic/go-critic/checkers"
	"github.com/go-critic/go-critic/checkers/analyzer"
	"golang.org/x/tools/go/analysis"
	"golang.org/x/tools/go/analysis/checker"
	"golang.org/x/tools/go/packages"
	"verifharness/hx"
)

func init() { commands["analyze"] = analyzeCmd }

type diagJSON struct {
	Pkg   string   `json:"pkg"`
	Pos   string   `json:"pos"`
	Msg   string   `json:"msg"`
	Fixes []string `json:"fixes,omitempty"`
}

// analyzeCmd runs the real go/analysis analyzer over packages through the x/tools driver
// (golang.org/x/tools/go/analysis/checker), sequentially or with parallel passes, optionally
// recording the analyzer's specification-level actions (never in race runs).
func analyzeCmd(args []string) {
	fs := flag.NewFlagSet("analyze", flag.ExitOnError)
	dir := fs.String("dir", ".", "workspace directory")
	pats := fs.String("patterns", "./...", "comma list of package patterns")
	flags := fs.String("flags", "", "analyzer flags: name=value;name=value")
	sequential := fs.Bool("sequential", false, "run passes sequentially")
	trace := fs.String("trace", "", "record analyzer actions (NDJSON)")
	out := fs.String("out", "", "output JSON")
	initEmbedded := fs.Bool("init-embedded", false, "call checkers.InitEmbeddedRules first (what the CLI mains do; the analysis mains do not)")
	tests := fs.Bool("tests", true, "load test variants")
	repeat := fs.Int("repeat", 1, "run the analysis this many times in the same process (re-entering the analyzer)")
	seq := fs.String("seq", "", "flag sets separated by | : run k of the analysis uses set k (an embedding program that re-configures the analyzer between runs)")
	disableCache := fs.Bool("disable-cache", false, "set analyzer.DisableCache (every pass builds its configuration from the current flag values)")
	work := fs.String("work", "", "record the work loop of every pass (NDJSON, AnalyzerWork.tla) and write <file>.refs with fresh per-variant verdicts")
	fs.Parse(args)

	if *initEmbedded {
		hx.Must(checkers.InitEmbeddedRules())
	}
	res := map[string]interface{}{}
	var flagErrs []string
	if *flags != "" {
		for _, kv := range strings.Split(*flags, ";") {
			i := strings.IndexByte(kv, '=')
			if err := analyzer.Analyzer.Flags.Set(kv[:i], kv[i+1:]); err != nil {
				flagErrs = append(flagErrs, err.Error())
			}
		}
	}
	res["flag_errors"] = flagErrs
	var tr *hx.Trace
	if *trace != "" {
		tr = hx.NewTrace(*trace)
		var mu sync.Mutex
		ids := map[*analysis.Pass]int{}
		analyzer.VerifHook = func(ev string, pass *analysis.Pass) {
			mu.Lock()
			defer mu.Unlock()
			m := map[string]interface{}{"ev": ev, "pass": 0, "pkg": ""}
			if pass != nil {
				if _, ok := ids[pass]; !ok {
					ids[pass] = len(ids) + 1
				}
				m["pass"] = ids[pass]
				m["pkg"] = pass.Pkg.Path()
			}
			tr.Emit(m)
		}
	}
	fset := token.NewFileSet()
	var wr *workRec
	if *work != "" {
		wr = newWorkRec(fset, *work)
	}
	cfg := &packages.Config{Mode: packages.LoadAllSyntax, Tests: *tests, Fset: fset, Dir: *dir,
		Env: append(os.Environ(), "GOFLAGS=-mod=mod", "GOPROXY=off", "GOSUMDB=off", "GOTOOLCHAIN=local")}
	pkgs, err := packages.Load(cfg, strings.Split(*pats, ",")...)
	hx.Must(err)
	var loadErrs []string
	for _, p := range pkgs {
		for _, e := range p.Errors {
			loadErrs = append(loadErrs, e.Error())
		}
	}
	res["load_errors"] = loadErrs
	res["packages"] = len(pkgs)

	analyzer.DisableCache = *disableCache
	var seqSets []string
	if *seq != "" {
		seqSets = strings.Split(*seq, "|")
		*repeat = len(seqSets)
	}
	var runs []map[string]interface{}
	for k := 0; k < *repeat; k++ {
		run := map[string]interface{}{}
		if seqSets != nil {
			for _, kv := range strings.Split(seqSets[k], ";") {
				i := strings.IndexByte(kv, '=')
				if err := analyzer.Analyzer.Flags.Set(kv[:i], kv[i+1:]); err != nil {
					flagErrs = append(flagErrs, err.Error())
				}
			}
			if !*disableCache {
				analyzer.VerifResetGlobals()
			}
			run["flags"] = seqSets[k]
		}
		func() {
			defer func() {
				if p := recover(); p != nil {
					run["panic"] = fmt.Sprint(p)
				}
			}()
			g, err := checker.Analyze([]*analysis.Analyzer{analyzer.Analyzer}, pkgs, &checker.Options{Sequential: *sequential})
			if err != nil {
				run["analyze_error"] = err.Error()
				return
			}
			if wr != nil {
				wr.finish(g)
			}
			var diags []diagJSON
			var errs []string
			for _, act := range g.Roots {
				if act.Err != nil {
					errs = append(errs, act.Package.ID+": "+act.Err.Error())
					continue
				}
				for _, d := range act.Diagnostics {
					dj := diagJSON{Pkg: act.Package.ID, Pos: fset.Position(d.Pos).String(), Msg: d.Message}
					for _, f := range d.SuggestedFixes {
						for _, e := range f.TextEdits {
							dj.Fixes = append(dj.Fixes, fmt.Sprintf("%d-%d %q", fset.Position(e.Pos).Offset, fset.Position(e.End).Offset, e.NewText))
						}
					}
					diags = append(diags, dj)
				}
			}
			sort.Slice(diags, func(i, j int) bool {
				if diags[i].Pos != diags[j].Pos {
					return diags[i].Pos < diags[j].Pos
				}
				if diags[i].Msg != diags[j].Msg {
					return diags[i].Msg < diags[j].Msg
				}
				return diags[i].Pkg < diags[j].Pkg
			})
			sort.Strings(errs)
			run["diags"] = diags
			run["errors"] = errs
		}()
		runs = append(runs, run)
	}
	res["runs"] = runs
	if tr != nil {
		tr.Close()
	}
	b, _ := json.MarshalIndent(res, "", " ")
	if *out == "" {
		os.Stdout.Write(b)
	} else {
		hx.Must(os.WriteFile(*out, b, 0o644))
	}
}
