package main

import (
	"encoding/json"
	"flag"
	"fmt"
	"go/token"
	"go/types"
	"math/rand"
	"os"
	"path/filepath"
	"sort"
	"strconv"
	"strings"
	"time"

	"verifharness/hx"

	"github.com/go-critic/go-critic/linter"
)

func init() { commands["lifecycle"] = lifecycle }

// lifecycle drives long-lived checker sets through visit sequences over a corpus, records
// the execution as an NDJSON trace (for TraceLifecycle.tla) and keeps the details of every
// non-conforming event.
func lifecycle(args []string) {
	fs := flag.NewFlagSet("lifecycle", flag.ExitOnError)
	corpus := fs.String("corpus", "examples", "comma list: examples | std[:N] | repo | dir:<path>[:pattern]")
	mode := fs.String("mode", "cli", "comma list of: cli | pairs | hist | order")
	histFile := fs.String("hist", "", "JSON file: list of visit sequences (catalogue indices) for -mode hist")
	frac := fs.Int("frac", 1, "use every frac-th checker (rotated by seed)")
	only := fs.String("checkers", "", "comma list of checker names (overrides -frac)")
	exclude := fs.String("exclude", "", "comma list of checker names that are not run at all (after an unrecoverable crash)")
	seed := fs.Int64("seed", 1, "seed")
	trace := fs.String("trace", "", "NDJSON trace output")
	out := fs.String("out", "", "JSON result output")
	oblig := fs.String("oblig", "c03,c05,c07", "obligations to evaluate")
	catN := fs.Int("cat", 8, "catalogue size for -mode hist")
	maxG := fs.Int("maxg", 0, "pairs: limit the number of predecessor files (0 = all)")
	goVer := fs.String("go", "", "target Go version")
	sizesArch := fs.String("sizes", "", "GOARCH whose type sizes the contexts use (default: the host's); e.g. 386")
	params := fs.String("params", "default", "parameter corner: default | min | max | name.param=value,... ")
	repeats := fs.Int("repeats", 5, "repeat: number of passes")
	resetEach := fs.Bool("reset-each-pass", false, "repeat: construct a new checker set for every pass")
	rgrules := fs.String("rgrules", "", "value of the ruleguard checker's rules parameter (may contain commas)")
	others := fs.Int("others", 0, "order: number of other checkers sampled per file (0 = all)")
	fs.Parse(args)

	t0 := time.Now()
	hx.Init()
	if *sizesArch != "" {
		sz := types.SizesFor("gc", *sizesArch)
		if sz == nil {
			hx.Fatalf("unknown -sizes %q", *sizesArch)
		}
		hx.Sizes = sz
	}
	rng := rand.New(rand.NewSource(*seed))
	fset := token.NewFileSet()
	var units []*hx.Unit
	var loadErrs int
	for _, c := range strings.Split(*corpus, ",") {
		us, le := loadCorpus(fset, c, rng)
		units = append(units, us...)
		loadErrs += le
	}
	infos := hx.Infos()
	applyParams(infos, *params)
	if *rgrules != "" {
		for _, in := range infos {
			if in.Name == "ruleguard" {
				in.Params["rules"].Value = *rgrules
			}
		}
	}
	if *exclude != "" {
		skip := map[string]bool{}
		for _, n := range strings.Split(*exclude, ",") {
			skip[n] = true
		}
		var kept []*linter.CheckerInfo
		for _, in := range infos {
			if !skip[in.Name] {
				kept = append(kept, in)
			}
		}
		infos = kept
	}
	var names []string
	if *only != "" {
		names = strings.Split(*only, ",")
	} else {
		for i, in := range infos {
			if (i+int(*seed))%*frac == 0 {
				names = append(names, in.Name)
			}
		}
	}
	sort.Strings(names)

	tr := hx.NewTrace(*trace)
	r := hx.NewRunner(fset, infos, tr, *oblig, *goVer)
	r.Baseline(units)
	tBase := time.Since(t0)

	// plan first (so that exactly the needed references are computed), then execute
	type step struct {
		u  *hx.Unit
		cs []string
	}
	var plans [][]step
	for _, m := range strings.Split(*mode, ",") {
		var plan []step
		switch m {
		case "cli":
			for _, u := range units {
				plan = append(plan, step{u, names})
			}
		case "pairs":
			own := ownFiles(units)
			var sample []*hx.Unit
			if *maxG > 0 && *maxG < len(units) {
				for _, i := range rng.Perm(len(units))[:*maxG] {
					sample = append(sample, units[i])
				}
			} else {
				sample = units
			}
			// files outside the example directories (adversarial corpus: only a package clause, no imports, ...) are
			// always predecessors, and targets after the checker's own first file
			var ownerless []*hx.Unit
			isName := map[string]bool{}
			for _, n := range hx.Infos() {
				isName[n.Name] = true
			}
			for d, us := range own {
				if !isName[d] {
					ownerless = append(ownerless, us...)
				}
			}
			sort.Slice(ownerless, func(i, j int) bool { return ownerless[i].ID < ownerless[j].ID })
			for _, c := range names {
				one := []string{c}
				gs := append([]*hx.Unit{}, own[c]...)
				gs = append(gs, ownerless...)
				if len(own[c]) > 0 {
					for _, f := range ownerless {
						plan = append(plan, step{own[c][0], one}, step{f, one})
					}
				}
				for _, g := range sample {
					dup := false
					for _, o := range gs {
						dup = dup || o == g
					}
					if !dup {
						gs = append(gs, g)
					}
				}
				for _, g := range gs {
					plan = append(plan, step{g, one})
					for _, f := range own[c] {
						plan = append(plan, step{f, one}, step{g, one})
					}
				}
			}
		case "repeat":
			// C02: the same corpus analysed again and again by the same set (and, with -reset-each-pass, by new sets);
			// the first observation of every (checker, file) is the reference
			for k := 0; k < *repeats; k++ {
				if k > 0 && *resetEach {
					plan = append(plan, step{nil, nil})
				}
				order := units
				if k > 0 {
					// a different visiting order in every pass: what came before a file must not matter either
					order = append([]*hx.Unit{}, units...)
					rng.Shuffle(len(order), func(i, j int) { order[i], order[j] = order[j], order[i] })
				}
				for _, u := range order {
					plan = append(plan, step{u, names})
				}
			}
		case "hist":
			var hists [][]int
			b, err := os.ReadFile(*histFile)
			hx.Must(err)
			hx.Must(json.Unmarshal(b, &hists))
			cat := catalogue(units, *catN, rng)
			for _, h := range hists {
				for _, i := range h {
					plan = append(plan, step{cat[i%len(cat)], names})
				}
			}
		case "order":
			// C05: on every file: its own checker first, then the tree-rewriting group, then a seed-chosen
			// sample of the others (all when -others 0), and then the same list in reverse order
			rewriting := []string{"boolExprSimplify", "typeUnparen", "paramTypeCombine", "badCond", "methodExprCall",
				"sloppyReassign", "evalOrder", "exitAfterDefer", "rangeAppendAll", "commentFormatting", "underef", "unlambda"}
			inNames := map[string]bool{}
			for _, n := range names {
				inNames[n] = true
			}
			ownerOf := map[*hx.Unit]string{}
			for c, us := range ownFiles(units) {
				if !inNames[c] {
					continue
				}
				for _, u := range us {
					ownerOf[u] = c
				}
			}
			for _, u := range units {
				var cs []string
				seen := map[string]bool{}
				add := func(c string) {
					if inNames[c] && !seen[c] {
						seen[c] = true
						cs = append(cs, c)
					}
				}
				add(ownerOf[u])
				for _, c := range rewriting {
					add(c)
				}
				perm := rng.Perm(len(names))
				k := 0
				for _, i := range perm {
					if *others > 0 && k >= *others && ownerOf[u] != "" {
						break // files outside the example directories get every checker
					}
					if !seen[names[i]] {
						add(names[i])
						k++
					}
				}
				for i := len(cs) - 1; i >= 0; i-- {
					cs = append(cs, cs[i])
				}
				plan = append(plan, step{u, cs})
			}
		default:
			hx.Fatalf("unknown mode %s", m)
		}
		plans = append(plans, plan)
	}
	need := map[*hx.Unit]map[string]bool{}
	for _, plan := range plans {
		for _, st := range plan {
			if st.u == nil {
				continue
			}
			if need[st.u] == nil {
				need[st.u] = map[string]bool{}
			}
			for _, c := range st.cs {
				need[st.u][c] = true
			}
		}
	}
	if r.Oblig["c03"] && !strings.Contains(*mode, "repeat") {
		r.ComputeRefs(need)
	}
	r.RefFirst = strings.Contains(*mode, "repeat")
	tRefs := time.Since(t0)
	// a reference run that damages its input is a C05 violation too
	refMut := 0
	if r.Oblig["c05"] {
		r2 := hx.NewRunner(fset, infos, hx.NewTrace(""), *oblig, *goVer)
		r2.Baseline(units)
		refMut = r.CompareBaseline(r2)
	}
	for _, plan := range plans {
		hx.Must(r.Reset(names))
		for _, st := range plan {
			if st.u == nil {
				hx.Must(r.Reset(names))
				continue
			}
			r.Visit(st.u)
			for _, c := range st.cs {
				r.Check(c)
			}
		}
	}
	tr.Close()

	res := map[string]interface{}{
		"units": len(units), "checkers": len(names), "checks": r.Checks, "events": tr.N, "warnings": r.Warns,
		"nontrivial_checks": r.NontrivialChecks, "nonconf": r.Nonconfs, "samples": r.Samples, "load_errors": loadErrs,
		"ref_mutations": refMut, "fresh_references": r.RefCount,
		"t_baseline_s": tBase.Seconds(), "t_refs_s": tRefs.Seconds(), "t_total_s": time.Since(t0).Seconds(),
	}
	b, _ := json.MarshalIndent(res, "", " ")
	if *out != "" {
		hx.Must(os.WriteFile(*out, b, 0o644))
	} else {
		os.Stdout.Write(b)
	}
}

// loadCorpus loads one corpus item; returns its units and the number of packages with load errors.
func loadCorpus(fset *token.FileSet, spec string, rng *rand.Rand) ([]*hx.Unit, int) {
	switch {
	case spec == "examples":
		pkgs, err := hx.LoadExamples(fset, nil)
		hx.Must(err)
		le := 0
		for _, p := range pkgs {
			if len(p.Errors) != 0 {
				le++
			}
		}
		return hx.Units(fset, pkgs), le
	case strings.HasPrefix(spec, "std"):
		pkgs, err := hx.Load(fset, hx.Repo(), false, "std")
		hx.Must(err)
		n := 0
		if i := strings.IndexByte(spec, ':'); i >= 0 {
			for _, ch := range spec[i+1:] {
				n = n*10 + int(ch-'0')
			}
		}
		if n > 0 && n < len(pkgs) && rng != nil {
			rng.Shuffle(len(pkgs), func(i, j int) { pkgs[i], pkgs[j] = pkgs[j], pkgs[i] })
			pkgs = pkgs[:n]
			sort.Slice(pkgs, func(i, j int) bool { return pkgs[i].ID < pkgs[j].ID })
		}
		return hx.Units(fset, pkgs), 0
	case spec == "repo":
		pkgs, err := hx.Load(fset, hx.Repo(), true, "./...")
		hx.Must(err)
		return hx.Units(fset, pkgs), 0
	case strings.HasPrefix(spec, "dir:"):
		parts := strings.SplitN(spec[4:], ":", 2)
		pat := "./..."
		if len(parts) == 2 {
			pat = parts[1]
		}
		pkgs, err := hx.Load(fset, parts[0], false, pat)
		hx.Must(err)
		le := 0
		for _, p := range pkgs {
			if len(p.Errors) != 0 {
				le++
				fmt.Fprintf(os.Stderr, "vh: load errors in %s: %v\n", p.ID, p.Errors)
			}
		}
		return hx.Units(fset, pkgs), le
	}
	hx.Fatalf("unknown corpus %q", spec)
	return nil, 0
}

// ownFiles maps a checker name to the units of its own example directory.
func ownFiles(units []*hx.Unit) map[string][]*hx.Unit {
	alias := map[string]string{"dupImport": "dupImport", "tooManyResults": "tooManyResultsChecker"}
	own := map[string][]*hx.Unit{}
	for _, u := range units {
		dir := filepath.Base(filepath.Dir(u.Phys))
		name := dir
		if a, ok := alias[dir]; ok {
			name = a
		}
		own[name] = append(own[name], u)
	}
	return own
}

// catalogue picks n units: a seed-chosen subset that contains at least two files of one package.
func catalogue(units []*hx.Unit, n int, rng *rand.Rand) []*hx.Unit {
	if n >= len(units) {
		return units
	}
	perm := rng.Perm(len(units))
	var cat []*hx.Unit
	first := units[perm[0]]
	for _, u := range units {
		if u.Pkg == first.Pkg && len(cat) < 2 {
			cat = append(cat, u)
		}
	}
	for _, i := range perm {
		if len(cat) >= n {
			break
		}
		if units[i].Pkg != first.Pkg {
			cat = append(cat, units[i])
		}
	}
	return cat
}

// applyParams overrides registered parameter values the way an integrator does
// (writing CheckerParam.Value of the info objects before construction).
func applyParams(infos []*linter.CheckerInfo, spec string) {
	if spec == "" || spec == "default" {
		return
	}
	corner := spec
	if i := strings.IndexByte(spec, ','); i >= 0 && !strings.Contains(spec[:i], "=") {
		corner, spec = spec[:i], spec[i+1:]
	} else if strings.Contains(spec, "=") {
		corner = ""
	}
	for _, in := range infos {
		for pname, p := range in.Params {
			switch v := p.Value.(type) {
			case int:
				switch corner {
				case "min":
					p.Value = 0
				case "one":
					p.Value = 1
				case "max":
					p.Value = 1 << 30
				}
				_ = v
			case bool:
				switch corner {
				case "min":
					p.Value = false
				case "max", "one":
					p.Value = true
				}
			}
			_ = pname
		}
	}
	if strings.Contains(spec, "=") {
		for _, kv := range strings.Split(spec, ",") {
			eq := strings.IndexByte(kv, '=')
			dot := strings.IndexByte(kv, '.')
			if eq < 0 || dot < 0 || dot > eq {
				hx.Fatalf("bad -params item %q", kv)
			}
			cn, pn, val := kv[:dot], kv[dot+1:eq], kv[eq+1:]
			for _, in := range infos {
				if in.Name != cn {
					continue
				}
				p, ok := in.Params[pn]
				if !ok {
					hx.Fatalf("unknown parameter %s.%s", cn, pn)
				}
				switch p.Value.(type) {
				case int:
					n, err := strconv.Atoi(val)
					hx.Must(err)
					p.Value = n
				case bool:
					p.Value = val == "true"
				case string:
					p.Value = val
				}
			}
		}
	}
}
