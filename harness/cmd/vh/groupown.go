package main

import (
	"encoding/json"
	"flag"
	"fmt"
	"go/token"
	"math/rand"
	"os"
	"sort"
	"strings"
	"sync"

	"verifharness/hx"

	"github.com/go-critic/go-critic/linter"
)

func init() { commands["groupown"] = groupOwnCmd }

// groupOwnCmd: a checker named after a rule group runs that group's rules and no others, however its construction was
// scheduled. Reference: every rule-group checker constructed alone, one after another, run over the example files of ALL rule
// groups. Then G goroutines construct all rule-group checkers at the same time (each on its own context, in its own order - what
// parallel analysis passes do), and every instance must say exactly what the reference instance of its name says.
func groupOwnCmd(args []string) {
	fs := flag.NewFlagSet("groupown", flag.ExitOnError)
	out := fs.String("out", "", "output JSON")
	groupsArg := fs.String("groups", "", "comma list of rule group names")
	workers := fs.Int("workers", 8, "goroutines constructing at the same time")
	rounds := fs.Int("rounds", 2, "rounds of concurrent construction")
	seed := fs.Int64("seed", 1, "seed")
	fs.Parse(args)
	hx.Init()
	want := map[string]bool{}
	for _, g := range strings.Split(*groupsArg, ",") {
		if g != "" {
			want[g] = true
		}
	}
	var infos []*linter.CheckerInfo
	var dirs []string
	have := map[string]bool{}
	for _, d := range hx.ExampleDirs() {
		have[d] = true
	}
	for _, in := range hx.Infos() {
		if want[in.Name] {
			infos = append(infos, in)
			if have[in.Name] {
				dirs = append(dirs, in.Name)
			}
		}
	}
	fset := token.NewFileSet()
	pkgs, err := hx.LoadExamples(fset, dirs)
	hx.Must(err)
	units := hx.Units(fset, pkgs)

	run := func(c *linter.Checker, ctx *linter.Context) (res []string, perr string) {
		defer func() {
			if p := recover(); p != nil {
				perr = fmt.Sprint(p)
			}
		}()
		for _, u := range units {
			ctx.SetPackageInfo(u.Pkg.TypesInfo, u.Pkg.Types)
			ctx.SetFileInfo(u.Base, u.File)
			for _, w := range c.Check(u.File) {
				res = append(res, hx.WarnString(fset, w))
			}
		}
		return res, ""
	}
	mk := func(in *linter.CheckerInfo) (*linter.Checker, *linter.Context, error) {
		ctx := linter.NewContext(fset, hx.Sizes)
		if len(units) > 0 {
			ctx.SetPackageInfo(units[0].Pkg.TypesInfo, units[0].Pkg.Types)
		}
		c, err := linter.NewChecker(ctx, in)
		return c, ctx, err
	}
	ref := map[string][]string{}
	own := 0
	for _, in := range infos {
		c, ctx, err := mk(in)
		hx.Must(err)
		r, perr := run(c, ctx)
		if perr != "" {
			hx.Fatalf("reference instance of %s panicked: %s", in.Name, perr)
		}
		ref[in.Name] = r
		if len(r) > 0 {
			own++
		}
	}
	type mismatch struct {
		Checker string   `json:"checker"`
		Round   int      `json:"round"`
		Error   string   `json:"error,omitempty"`
		Ref     []string `json:"ref"`
		Got     []string `json:"got"`
	}
	var mu sync.Mutex
	var bad []mismatch
	refDig := map[string]string{}
	for n, r := range ref {
		refDig[n] = hx.Digest(r)
	}
	instDig := map[string]bool{} // "name digest" of every concurrently constructed instance
	instances := 0
	for round := 0; round < *rounds; round++ {
		var wg sync.WaitGroup
		start := make(chan struct{})
		for g := 0; g < *workers; g++ {
			wg.Add(1)
			go func(g int) {
				defer wg.Done()
				rng := rand.New(rand.NewSource(*seed*1000 + int64(round*100+g)))
				order := rng.Perm(len(infos))
				type inst struct {
					c   *linter.Checker
					ctx *linter.Context
					in  *linter.CheckerInfo
				}
				var made []inst
				<-start
				for _, i := range order {
					c, ctx, err := mk(infos[i])
					if err != nil {
						mu.Lock()
						bad = append(bad, mismatch{Checker: infos[i].Name, Round: round, Error: "constructor: " + err.Error()})
						mu.Unlock()
						continue
					}
					made = append(made, inst{c, ctx, infos[i]})
				}
				for _, m := range made {
					got, perr := run(m.c, m.ctx)
					mu.Lock()
					instances++
					if perr == "" {
						instDig[m.in.Name+" "+hx.Digest(got)] = true
					} else {
						instDig[m.in.Name+" panic"] = true
					}
					if perr != "" || strings.Join(got, "\n") != strings.Join(ref[m.in.Name], "\n") {
						bad = append(bad, mismatch{Checker: m.in.Name, Round: round, Error: perr, Ref: head(ref[m.in.Name]), Got: head(got)})
					}
					mu.Unlock()
				}
			}(g)
		}
		close(start)
		wg.Wait()
	}
	b, _ := json.MarshalIndent(map[string]interface{}{"groups": len(infos), "files": len(units), "groups_with_diagnostics": own,
		"instances": instances, "mismatches": bad, "ref_digests": refDig, "instance_digests": keys(instDig)}, "", " ")
	if *out == "" {
		os.Stdout.Write(b)
	} else {
		hx.Must(os.WriteFile(*out, b, 0o644))
	}
}

func head(xs []string) []string {
	if len(xs) > 4 {
		return xs[:4]
	}
	return xs
}

func keys(m map[string]bool) []string {
	out := []string{}
	for k := range m {
		out = append(out, k)
	}
	sort.Strings(out)
	return out
}
