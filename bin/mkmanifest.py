#!/usr/bin/env python3
"""Regenerates /verif/MANIFEST.json from the table below (single source of truth for the registered checks)."""
import json
import os
import subprocess

VERIF = os.path.dirname(os.path.dirname(os.path.abspath(__file__)))

CHECKS = {
    "C03": dict(
        category="model_checking",
        text="Lifecycle.tla (long-lived checkers on one shared context; HistIndep, BufEmptyAtBegin, InfoIdentityStable) is checked "
             "exhaustively by TLC for small constants and each protection of the code is refuted when switched off. The real code is bound "
             "to it by trace validation: TLC-simulated visit sequences and the (g -> f) pair sweep over all example files are executed on "
             "one real long-lived set of all registered checkers, every action is recorded through the verif hooks, and "
             "TraceLifecycle.tla (the module instantiated over the trace) accepts the execution only if every Check returns what a "
             "fresh instance returns. The real binary is also run with permuted / split package arguments.",
        design_ref="DESIGN.md section 6 C03, section 11",
        note="Reference = fresh instance of the same code built in the other legal construction order. Bounded by the example corpus "
             "(216 files) and the sampled predecessor files in the quick tier; not all Go programs. The adversarial packages are also analysed in package order and in shuffled orders by one long-lived set (same-named function-local types across files, import-less files after files with imports).",
        technique="TLA+ model (TLC exhaustive) + trace validation of recorded executions + replay of TLC behaviours",
        engine="lifecycle",
    ),
}

CHECKS.update({
    "C01": dict(
        category="model_checking",
        text="Lifecycle.tla requires every CheckBegin to be followed by Walked and CheckEnd; TraceLifecycle.tla has no action for a "
             "panic or deadline event, so a recorded execution of the real checkers that contains one is rejected at that line. "
             "Every registered checker is run (under recover and a per-Check deadline) on every file of the corpora: all example "
             "files, programs enumerated by Scopes.tla (namesakes of builtins / std packages, unusual call shapes), and in the thorough "
             "tier all of std and the repository, at the default, minimal, unit and maximal parameter corners.",
        design_ref="DESIGN.md section 6 C01",
        note="Bounded program grammar + corpora, not all Go programs; hangs are detected by a 60 s per-Check deadline. Corpus also holds forwarded call results f(g()), body-less functions, cyclic embedded pointers, 128 KiB constants and patterns regexp rejects; an unrecoverable crash of the in-process harness is attributed to the checker on the stack and the run repeated without it.",
        technique="trace validation against the TLA+ lifecycle model over corpora and spec-enumerated programs",
        engine="lifecycle"),
    "C05": dict(
        category="model_checking",
        text="Lifecycle.tla states the frame condition of a walk (tree, type information, context and registry unchanged; what-if "
             "CopiesFirst=FALSE refutes InputsReadOnly and, through the next checker, HistIndep). Recorded executions log with every "
             "Walked event whether the structural fingerprint (reflection walk of the whole *ast.File graph incl. aliasing, per-node "
             "types.Info entries, Context fields, registered metadata and parameter values) still equals the baseline taken before any "
             "checker ran, and compare every checker's result after other checkers with its result alone; TraceLifecycle.tla rejects "
             "any event with fpSame = FALSE or got # fresh.",
        design_ref="DESIGN.md section 6 C05",
        note="Example files in the quick tier (own checker + rewriting group + sampled others per file, both orders); std sample and "
             "repository in the thorough tier. The 'min' parameter corner runs on a context with 386 sizes so that an overwritten SizesInfo is visible in the fingerprint.",
        technique="TLA+ frame condition + fingerprint-carrying trace validation",
        engine="lifecycle"),
    "C06": dict(
        category="model_checking",
        text="Selection.tla defines the documented algebra (DocSel) and transcriptions of the CLI, analyzer and docs-mark routines; "
             "TLC checks Impl = Doc on every tag profile x configuration (lists up to 2 keys over own/other/unknown/empty names and "
             "all/unknown tags, enable-all, flag-not-given) and exports every case for the real registry's profiles. Each exported case "
             "is evaluated on the real filter routines (both command packages through verif in-package drivers running the real pipeline "
             "up to initCheckers; the analyzer through its filter), including empty selections, construction of unselected checkers "
             "and the documentation marks.",
        design_ref="DESIGN.md section 6 C06, Appendix A.7",
        note="Whitespace-padded keys and analyzer configurations outside Selection!Translatable are outside the claim; embedded checkers "
             "are stand-ins with their real names/tags in the drivers.",
        technique="exhaustive TLC sweep of the configuration space + replay of every exported case on the three real routines",
        engine="selection"),
    "C07": dict(
        category="model_checking",
        text="The obligations of a diagnostic (valid position inside the physical file being analysed, at the start of a token or "
             "comment, well-formed fix range in the same file, non-empty text without formatting artefacts) are guards of the Walked "
             "action of TraceLifecycle.tla; every recorded Check of every checker on the corpora is validated against it.",
        design_ref="DESIGN.md section 6 C07",
        note="Corpora: example files (default and minimal parameters), spec-enumerated programs; thorough adds std, the repository "
             "and the maximal parameter corner.",
        technique="trace validation with per-warning obligations as action guards",
        engine="lifecycle"),
})

CHECKS.update({
    "C04": dict(
        category="model_checking",
        text="FanOut.tla (per-file semaphore of K tokens, WaitGroup barrier, private slots, ordered printing) is checked for every "
             "interleaving of N<=5 checker goroutines over 2 files and K in 1..N (AtMostK, PrintAfterAll, SlotsComplete, "
             "NoCtxWriteDuringCheck, OutEqualsSequential), each protection refuted when switched off; Analyzer.tla does the same for "
             "concurrent passes sharing the mutex-protected cache. Runs of the real binary at several -concurrency values are recorded "
             "through the verif hooks and validated by TraceFanOut.tla (FanOut instantiated over the trace: every acquire, start, "
             "check, slot write, done, release, barrier, print is an action), their output must be byte-identical to the sequential "
             "run; parallel analyzer passes are recorded and validated by TraceAnalyzer.tla and compared with sequential passes. Race "
             "freedom of the real thing: race-detector builds of the binary (more tokens than checkers, no recorder) and of the "
             "analyzer under the x/tools driver with parallel passes, repeated.",
        design_ref="DESIGN.md section 6 C04, Appendix A.6, A.3",
        note="Hooks add no synchronisation when no recorder is installed; race freedom rests on the detector's window and on C05. FanOut and Analyzer also carry liveness properties (LiveSpec: Terminates, EveryFilePrinted, AllReturn) with their own what-ifs; badCond's reversed loops are always in the race workspace. Every example directory also runs as twin packages under the race detector (quick tier: every sixth, rotated by VERIF_SEED); `vh sharing` constructs every checker twice on separate contexts and reports an object reachable from both instances that changes while one instance works.",
        technique="TLC over all interleavings + trace validation of recorded concurrent runs + race detector",
        engine="fanout"),
    "C08": dict(
        category="model_checking",
        text="Registry.tla orders the two registration phases against the moment each front-end snapshots the registry (SameOffer "
             "refuted for a snapshot before phase 2). The offers of the real binaries are extracted and compared with the registry; "
             "a workspace with plain packages, in-package tests and external tests is analysed by the four binaries under equivalent "
             "configurations (defaults, enable-all, by name, by tag, parameters, -go, tests off) and the normalised "
             "(file, line, col, checker, message) multisets must be equal, each line once; quick fixes of the analyzer are compared "
             "with the linter's."
             " AnalyzerWork.tla models the work loop of one analyzer pass per build variant (Faithful, NothingForeign, Complete; the what-if 'diagnostics remembered per syntax tree' is refuted iff a verdict depends on the variant); the loop of every real pass over corpus/variants is recorded through the linter and analyzer hooks and validated by TraceAnalyzerWork.tla, with Verdict = what newly constructed checkers say about that variant.",
        design_ref="DESIGN.md section 6 C08",
        note="Equivalent configuration = Selection!Translatable; workspaces are built from example files. One configuration uses user ruleguard rules whose filters depend on the package of the analysed file; declaration-less files with reportable comments are in the workspace.",
        technique="TLA+ registration model + differential replay on the four real binaries",
        engine="frontends"),
    "C19": dict(
        category="model_checking",
        text="ConfigErrors.tla models the configuration pipeline of the four mains with one error exit per step and the analyzer's "
             "re-entry after a reported init error (NoPanic, CleanFailure); the three crash/silent behaviours found on the pinned tree "
             "are what-if constants and refuted. TLC exports all 84 (front-end, invalid-configuration class, package count) cases with "
             "the predicted outcome; each is executed on the real binaries (non-zero exit, message names the problem, no panic, no "
             "diagnostics). Recorded analyzer runs with an invalid configuration (sequential and parallel passes) are validated by "
             "TraceAnalyzer.tla; packages with syntax, type, import and package-clause errors must not crash any front-end."
             " One error class combines an unknown failOn value with the deprecated failOnError boolean (neither may mask the other).",
        design_ref="DESIGN.md section 6 C19, Appendix A.3",
        note="'Names the problem' is judged by a class keyword in the output.",
        technique="TLC case export + replay on the real binaries + analyzer trace validation",
        engine="frontends"),
})

CHECKS.update({
    "C02": dict(
        category="model_checking",
        text="Determinism.tla is the self-composition of two runs with the emission disciplines of the code (source order, sorted, "
             "range over a map): Deterministic holds for the first two and is refuted for map iteration with >= 2 keys. The places that "
             "emit while ranging over a map are extracted from the working tree. The real checkers analyse the same corpus (example "
             "files + multi-trigger adversarial files) repeatedly - one long-lived set in a different file order per pass, newly "
             "constructed sets with overlapping user rule files - and TraceLifecycle.tla validates the recorded execution with the first "
             "observation of every (checker, file) as reference; the real binary is run repeatedly at several -concurrency values "
             "(byte-identical output) and parallel analyzer passes are repeated in one process."
             " Packages that do not type-check (corpus/illtyped: several imports under one local name, i.e. several keys per table entry) are analysed by repeated processes of the real command; the output must be byte-identical.",
        design_ref="DESIGN.md section 6 C02",
        note="Probabilistic for map-order dependence: k >= 2 keys and R repetitions expose it with probability >= 1 - 2^-(R-1).",
        technique="TLA+ self-composition + repeated-execution trace validation against the first run",
        engine="lifecycle"),
    "C16": dict(
        category="model_checking",
        text="Paths.tla: all 50 625 layouts of (working directory, GOPATH, GOROOT, file) over two segment names up to depth 3 are initial "
             "states; RoundTrip (the printed location resolves to the file) holds for the prefix-based shortening and is refuted for "
             "first-occurrence replacement; the filter table (header class x test file x flags, three-valued Generated) likewise. Every "
             "exported layout is run through the real shortenLocation of both command packages, every header class through the real "
             "isGenerated, and the real binary is run on materialised workspaces (same base names in two packages with different "
             "verdicts, odd directory names, nested-path and GOPATH layouts, exit codes): each printed location must resolve to an "
             "existing file, each file is reported iff it is neither a skipped test nor generated, exit status = configured code iff "
             "something was printed.",
        design_ref="DESIGN.md section 6 C16, Appendix A.4",
        note="Header classes midLine / afterPackage / block are unconstrained.",
        technique="exhaustive TLC sweep of path layouts + replay on the real routines + end-to-end runs",
        engine="paths"),
})

CHECKS.update({
    "C18": dict(
        category="model_checking",
        text="RuleLoad.tla: every sequence of up to 2 (thorough: 3) rule files in {valid, unreadable, syntax error, DSL error, bad "
             "import, empty} x failOn subsets x legacy flag x unknown token x pattern form is an initial state and the load loop runs "
             "as actions; Conforms compares the outcome with the documented skip-or-fail policy (three-valued where the statement is "
             "silent); counting failed loads (the pinned behaviour) is refuted. A second sweep covers group filtering by name, #tag, "
             "<all> and the experimental rule. Every exported case is materialised on disk and the real ruleguard checker is "
             "constructed through linter.NewChecker and run on a probe file; init error, firing groups and spurious diagnostics are "
             "compared with the documented outcome.",
        design_ref="DESIGN.md section 6 C18, Appendix A.5",
        note="Quick tier: all single-file cases and a seeded sample of two-file sequences and group filters.",
        technique="TLC fault-sequence enumeration + replay of every case on the real loader",
        engine="ruleload"),
})

CHECKS.update({
    "C13": dict(
        category="model_checking",
        text="Walker.tla models the declaration loop of the astwalk walkers over abstract files (function / body-less function / "
             "method / other declaration chunks with trigger and scratch-residue flags); Local holds for every file of up to 4 chunks "
             "under every reordering of the plain functions and every inserted padding chunk, and is refuted when the loop returns "
             "instead of continuing, when the EnterFunc answer is remembered across declarations, or when scratch is not reset per "
             "function. The same transformation schemas are applied to the maintainers' example files, cut into chunks that carry "
             "their `/*! expectation */` lines: reverse, rotate, swaps, move-to-front/back, shuffle, padding with blank lines / var / "
             "func / type / body-less func / comment before chunks, appended unrelated code, unrelated code re-using the file's type "
             "names; every variant is re-type-checked and analysed by the real checker and must match its expectations exactly."
             " Look-ahead attribution (marked chunks, AttributePerDecl; what-if: a mark is attributed to the last function seen) is part of the model; the padding kinds include a package-level function literal with label/goto/defer/loop/switch and an unrelated function with a goto.",
        design_ref="DESIGN.md section 6 C13",
        note="Only plain functions move; 2 example directories have no registered checker (reported as uncovered). Guest schemas move the plain functions of the sibling example file (positive <-> negative, identical import table) between the target's declarations.",
        technique="TLC over abstract files and transformations + metamorphic replay on the curated examples",
        engine="locality"),
    "C14": dict(
        category="model_checking",
        text="Params.tla: the flow of an int and a bool parameter through Register/Bind/Parse/Assign/Override/Construct on the CLI, "
             "analyzer and integrator paths (UsedIsConfigured; 'bools not assigned' refuted) and the documented threshold predicates "
             "for every (checker, measure, threshold) with Monotone and Boundary. Constructs of measure exactly m are generated for "
             "the seven numeric parameters and analysed at every threshold through Override (in process) and through the real "
             "go-critic and analysis binaries (selected by name, by tag and by enable-all); the three must agree with the exported "
             "predictions and with each other; boolean parameters must change the outcome on discriminating constructs on every "
             "path; byte sizes quoted in messages are compared with types.Sizes (incl. same-named local types of different size)."
             " ParamsReconf.tla: a program embedding the analysis front-end re-configures it between runs of one process (UsedIsConfiguredNow; the what-if 'flag values copied once per process' is refuted); `vh analyze -seq` replays sequences of three configurations in one process (DisableCache, or the cached configuration dropped between runs) and every run must report what a process configured with that run's effective values from the start reports.",
        design_ref="DESIGN.md section 6 C14",
        note="ifElseChain / commentedOutCode: only monotone single-step behaviour is required; skipTestFuncs parameters uncovered. The sets of reported lines at neighbouring thresholds must be nested (monotonicity per diagnostic, not only per construct).",
        technique="TLA+ flow model + threshold table replayed on the three entry paths",
        engine="params"),
    "C17": dict(
        category="translation_validation",
        text="RegistryFacts.tla states Shipped, OneCheckerPerGroup, DocsExact and MarksAgree over facts extracted from the working "
             "tree (rule groups with their //doc lines, the live registry, the doc sub-command, docs/overview.md, digests); TLC "
             "evaluates them. The two build transitions are replayed on the repository's own generators in a scratch copy: "
             "precompile.go exactly as go:generate runs it, and cmd/makedocs; outputs are compared byte for byte with "
             "checkers/rulesdata/rulesdata.go and docs/overview.md."
             " CheckerRunsItsGroup: all rule-group checkers are constructed by eight goroutines at once (what parallel analysis passes do) and every instance, run over the example files of all groups, must behave exactly like the instance of its name constructed alone; the behaviours are facts evaluated by TLC.",
        design_ref="DESIGN.md section 6 C17",
        note="The TLA+ part only states the equalities; the decision is the regeneration diff. Generators are trusted.",
        technique="regeneration diff (translation validation) with TLA+-stated invariants over extracted facts",
        engine="registryfacts"),
})

CHECKS.update({
    "C15": dict(
        category="model_checking",
        text="GoVersion.tla: every version string of a token grammar (prefix, major, separator, minor, suffix; 21 780 initial states) "
             "with the documented and the transcribed parse result and numeric comparison (lexicographic what-if refuted); every "
             "string also goes through the real ParseGoVersion / GreaterOrEqual. Gate: for every target from 1.13 to the newest "
             "release in $GOROOT/api (plus unset and a far-future version) all registered checkers are constructed with that target and "
             "analyse the example files and version-gated adversarial constructs; every std function, method or builtin named in a "
             "recommendation (and absent from the flagged source line) is looked up in the API history and must not be newer than the "
             "target; unset must equal the far-future target.",
        design_ref="DESIGN.md section 6 C15",
        note="User rule files are outside the claim; method names use their oldest introduction (conservative).",
        technique="TLC sweep of version strings + gate replay against the Go API history",
        engine="goversion"),
})

CHECKS.update({
    "C20": dict(
        category="model_checking",
        text="Scopes.tla enumerates what may be declared under a subject's spelling at every level of Go's scope chain (package "
             "block, file block = imports, parameters, local block), the call-site shape and variadic-ness (288 cases) with the "
             "predictions WellFormed / Resolved / RealAPI; OnlyReal holds for object-based recognition and is refuted for recognition "
             "by spelling. Every case is rendered for 22 subjects (append, new, len, copy; regexp.Compile/MustCompile, sort.Slice, "
             "filepath.Join, flag.String, log.Fatal, os.Exit, strings/bytes/fmt/http/math/reflect helpers of rule patterns) as a Go "
             "package (1 700+ programs); the model's predictions must agree with go/types on every one, else the run is undecided; all "
             "checkers analyse every well-formed program; a diagnostic of the subject's checker on the trigger line for a callee that "
             "go/types resolves to a user-defined namesake is a violation.",
        design_ref="DESIGN.md section 6 C20, Appendix A.11",
        note="Three rule-based checkers that name builtins in their patterns are known findings (not expressible in the rules DSL).",
        technique="exhaustive TLC enumeration of the scope space, validated against go/types, replayed on the real checkers",
        engine="scopes"),
})

CHECKS.update({
    "C10": dict(
        category="model_checking",
        text="Exprs.tla models a fragment of Go boolean expressions (int and float variables, +-1, decimal / octal / hex literals, "
             "negation, and/or), IEEE evaluation with NaN, and a transcription of boolExprSimplify with its guards; Preserves holds "
             "for every term and environment with the repaired guards and is refuted for the pinned ones. Every enumerated term "
             "(10 000+ in the quick tier) is rendered as a Go function and analysed by the real checker; the original and the real "
             "suggestion are compiled into one program and executed on the environment grid - the toolchain is the oracle and also "
             "validates the model's evaluation. 110 executable templates exercise the rewriting rule groups (assignOp, "
             "emptyStringTest, stringXbytes, unslice, switchTrue, valSwap, wrapperFunc incl. strings.Cut, yodaStyleExpr, stringsCompare, "
             "redundantSprint, timeExprSimplify, underef, unlambda, newDeref, equalFold, stringConcatSimplify) with pure, impure, float, "
             "string, []byte, error, nil operands and are executed the same way (results and side-effect logs compared).",
        design_ref="DESIGN.md section 6 C10, Appendix A.9",
        note="Bounded term depth and input grid; no integer overflow; three behaviour changes are known findings (two asserted by the "
             "repository's own tests).",
        technique="bounded-exhaustive TLA+ term enumeration + differential execution of original vs suggested code",
        engine="exprs"),
})

CHECKS.update({
    "C12": dict(
        category="model_checking",
        text="TypeSwitch.tla models Go type-switch dispatch over a universe of concrete types (value and pointer receivers), three "
             "interfaces and nil, and caseOrder's claim that a case can never be reached; ClaimTrue holds for the sound implements "
             "test and is refuted for the what-ifs 'untyped nil implements the empty interface' (the pinned defect, fixed) and "
             "'pointer-receiver methods count for the value type'. All 392 case lists are rendered, analysed by the real checker and "
             "executed on every dynamic value: the model's dispatch must equal the Go runtime's (else undecided) and a flagged case "
             "must never be taken. The other constant-outcome claims (sloppyLen always true/false, badCond always false, offBy1 always "
             "panics, nilValReturn always nil, dupSubExpr/dupArg same value) are checked by 39 executable templates with pure, impure, "
             "NaN, shadowed and lazily-initialised operands: the claim parsed from the real diagnostic must hold in every execution."
             " AnalyzerWork.tla / TraceAnalyzerWork.tla (see C08) validate recorded analyzer passes over corpus/variants: a caseOrder claim that is true only with the method sets of the test variant must not be delivered for the production package.",
        design_ref="DESIGN.md section 6 C12",
        note="Universe bounded (4 concrete types, 3 interfaces, nil; <= 3 cases); value-switch claims of dupBranchBody/dupCase are "
             "covered only through the templates.",
        technique="exhaustive TLC enumeration of type-switch case lists replayed by execution + executable claim templates",
        engine="typeswitch"),
})

CHECKS.update({
    "C11": dict(
        category="model_checking",
        text="Regex.tla models regular-expression ASTs as the quasilyte parser sees them (chars, dot, three kinds of escapes, octal "
             "escapes, classes with ranges / posix items / negation, non-capturing, flag, numbered and named groups, greedy and lazy "
             "quantifiers, {m,n} repeats, concatenation, alternation incl. empty alternatives), leftmost-first matching with capture "
             "vectors, and a transcription of regexpSimplify's rewrite actions with eleven context guards, the read-back of printed "
             "class bodies / brace repeats / octal+digit, and the two-pass driver. SameLanguage holds with the guards of the repaired "
             "tree plus two that the code lacks (leftmost-first prefix factoring, brace text); each of ten what-ifs (one guard off) "
             "refutes it. Enumeration: level 1 (12 700 terms), level 2 in 14 context slices (thorough), and pseudo-random deeper terms "
             "derived from integer seeds chosen by VERIF_SEED (level 3). All terms are printed into regexp.MustCompile(...) calls; the "
             "real checker analyses them (fresh instance per file, sequentially and, race-instrumented, with all files concurrently; "
             "long patterns with a common head share one instance); Go's regexp judges every real suggestion (compiles, NumSubexp, "
             "SubexpNames, FindStringSubmatchIndex on all short subjects over the alphabet of the pattern and of its rewrite, on a "
             "shortest match exported by the model and on its one-symbol variations) and validates the module's matcher on 377 000 "
             "exported Find results (a disagreement makes the run undecided). The model predicts the real output on every enumerated "
             "pattern (drift is reported, never a verdict); violations are classified by context tag and rewrite actions."
             " A POSIX-lookalike family outside the model's grammar (classes containing a literal [ and escaped punctuation, e.g. [[\\:alpha\\:]]) is judged by regexp alone.",
        design_ref="DESIGN.md section 6 C11, Appendix A.13",
        note="Bounded ASTs over a 17-symbol alphabet; flags, anchors, Unicode classes, \\Q..\\E and repeats of nullable operands are "
             "not enumerated. Two known findings (prefix factoring asserted by the repository's tests; {1} after an octal escape).",
        technique="exhaustive TLC enumeration + semantic model validated against regexp; real rewrites judged by regexp",
        engine="regex"),
})

CHECKS.update({
    "C09": dict(
        category="model_checking",
        text="FixApply.tla models a statement list with the target statements of a multi-statement rule and unrelated statements "
             "before, between and after them, the fix range (the matched run) and the edit; OutsideUnchanged, NoUnrelatedDeleted and "
             "OneStatementReplacesRun hold when a fix is offered for adjacent targets only (the repaired rules); the pinned rules "
             "(what-if) refute NoUnrelatedDeleted. ZeroValue.tla enumerates type terms and transcribes ZeroValueOf; KeepsType and "
             "ConvUnambiguous hold and are refuted by three what-ifs (complex128 / named types as default literal types; no "
             "parentheses around a type that ends in a func type - the pinned printer defect). All 84 block shapes are rendered for "
             "the strings.Cut and valSwap rules and all 58 type terms as *new(T); the model's predictions (reported, fix offered, "
             "statements lost, synthesised zero value) are compared with the real suggestions. Every real suggestion on these "
             "programs, the repository's example packages, the executable rule templates and the adversarial corpus (570 fixes and "
             "quoted replacements) is applied for real and judged by go/parser and go/types: category, type-check with import "
             "bookkeeping, type kept, nothing lost, diagnostic gone after a fresh analysis; comment fixes are compared byte by byte "
             "with the specified edit, also through the analysis driver after the whole package was analysed.",
        design_ref="DESIGN.md section 6 C09",
        note="The corpus-wide judgement uses the toolchain as oracle; six known findings (five asserted by the repository's tests).",
        technique="TLC enumeration of edit shapes and type terms replayed on the real checkers + apply-and-recheck with go/parser, go/types",
        engine="fixapply"),
})

NOT_YET = "check not built yet (construction in progress; see DESIGN.md section 6)"
NOT_APPLICABLE = {}


def main():
    props = [json.loads(l)["id"] for l in open(os.path.join(VERIF, "properties.jsonl"))]
    hooks = subprocess.run(["git", "-C", "/repo", "log", "--format=%h %s", "--grep=^verif:"], capture_output=True, text=True).stdout.split("\n")
    commits = [h.split()[0] for h in hooks if h.strip()]
    checks = []
    for pid in props:
        c = CHECKS.get(pid)
        if not c:
            continue
        checks.append({
            "property_id": pid,
            "quick_cmd": "python3 bin/check.py %s --tier quick" % pid,
            "thorough_cmd": "python3 bin/check.py %s --tier thorough" % pid,
            "evidence_file": "/verif/evidence/%s.json" % pid,
            "replay_cmd_template": "python3 bin/check.py %s --replay {path}" % pid,
            "engine": c.get("engine", "tlc+harness"),
            "level_claimed": {"category": c["category"], "text": c["text"], "design_ref": c["design_ref"]},
            "level_note": c["note"],
            "technique": c["technique"],
        })
    na = []
    for pid in props:
        if pid in CHECKS:
            continue
        na.append({"property_id": pid, "reason": NOT_APPLICABLE.get(pid, NOT_YET)})
    m = {
        "version": 1,
        "setup_cmd": "python3 bin/check.py --setup",
        "hooks": {
            "guard": "verif",
            "enable": "go build -tags verif (harness module /verif/harness with replace => /repo; real binaries built from /repo with -tags verif)",
            "baseline_off_cmd": "cd /repo && go test -vet=off -count=1 -timeout 25m ./...",
            "source_commits": list(reversed(commits)),
            "add_only": True,
        },
        "engines": [
            {"name": "tlc", "path": "/verif/spec", "serves_properties": sorted(CHECKS), "kind_free_text": "TLA+ specifications checked with TLC 1.8 (exhaustive configs, simulation export, trace validation)"},
            {"name": "harness", "path": "/verif/harness", "serves_properties": sorted(CHECKS), "kind_free_text": "Go conformance harness (replays TLC cases on the real code, records executions through the verif hooks)"},
            {"name": "driver", "path": "/verif/bin/check.py", "serves_properties": sorted(CHECKS), "kind_free_text": "Python driver: builds from /repo's working tree, runs TLC + harness, known-finding matching, evidence"},
        ],
        "checks": checks,
        "not_applicable": na,
        "notes": "All checks: python3 bin/check.py <id> [--tier quick|thorough]; VERIF_SEED / VERIF_TIER honoured; exit 2 = machinery could not decide (never a verdict).",
    }
    if not na:
        del m["not_applicable"]
    with open(os.path.join(VERIF, "MANIFEST.json"), "w") as f:
        json.dump(m, f, indent=1)
    print("checks:", [c["property_id"] for c in checks])


if __name__ == "__main__":
    main()
