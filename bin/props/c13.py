"""C13 - diagnostics are local: unrelated code and declaration order do not matter.

Spec: Walker.tla - the declaration loop of the astwalk walkers over abstract files (chunks: function, body-less function, method,
other declaration; trigger and scratch-residue flags). Local: for every file of up to MaxLen chunks, every reordering of the plain
functions among themselves and every inserted padding chunk (declaration, function, body-less function) leaves the diagnostics of
the other chunks unchanged; the three what-ifs (return instead of continue on a rejected function, remembering the EnterFunc answer
for later declarations, not resetting scratch per function) are refuted. Binding: the transformation schemas are applied to the
maintainers' own examples: every positive/negative example file is cut into chunks (each with its leading comments and
`/*! expectation */` lines, so the oracle travels with the code), reordered / padded / extended, re-type-checked and analysed by
the real checker; the expectations must match exactly as the repository's linttest requires.
"""
import json
import os

import vlib

WCFG = """SPECIFICATION Spec
CONSTANTS
  MaxLen = %d
  ContinueOnBodyless = %s
  EnterPerDecl = %s
  ResetPerFunc = %s
  AttributePerDecl = %s
  WithMarks = %s
INVARIANTS Local
"""


def run(ctx):
    thorough = ctx.tier == "thorough"
    design = {}
    r = ctx.tlc("Walker", cfg_text=WCFG % (4 if thorough else 3, "TRUE", "TRUE", "TRUE", "TRUE", "FALSE"), workers=8, timeout=1800, expect="ok")
    design["files"] = r.distinct
    r = ctx.tlc("Walker", cfg_text=WCFG % (3 if thorough else 2, "TRUE", "TRUE", "TRUE", "TRUE", "TRUE"), workers=8, timeout=1800, expect="ok")
    design["files_with_marks"] = r.distinct
    for name, c in (("returnOnBodyless", ("FALSE", "TRUE", "TRUE", "TRUE", "FALSE")), ("stickyEnterFunc", ("TRUE", "FALSE", "TRUE", "TRUE", "FALSE")),
                    ("noResetPerFunc", ("TRUE", "TRUE", "FALSE", "TRUE", "FALSE")), ("lookaheadAttributedToLastFunc", ("TRUE", "TRUE", "TRUE", "FALSE", "TRUE"))):
        r = ctx.tlc("Walker", cfg_text=WCFG % ((2,) + c), workers=2, timeout=300, expect="violation")
        design["whatif_" + name] = r.violated
    outp = ctx.path("loc.json")
    work = os.path.dirname(ctx.path("locw", "x"))
    ctx.run_vh(["locality", "-out", outp, "-work", work, "-seed", str(ctx.seed), "-budget", "6" if thorough else "2"], timeout=3000)
    res = json.load(open(outp))
    mm = res["mismatches"] or []
    if res["stats"].get("identity_failures"):
        ctx.notes.append("%d example files do not pass untransformed in this harness and were skipped" % res["stats"]["identity_failures"])
    if res["stats"]["variants"] < 500 or res["stats"]["warnings"] < 1000:
        raise vlib.Infra("locality run is vacuous: %s" % res["stats"])
    for m in mm:
        schema = m["variant"].rstrip("0123456789")
        if m["kind"] == "typeerror":
            raise vlib.Infra("a transformed example does not type-check (harness problem, not a verdict): %s" % m)
        what = ("expected warning `%s` (line %d) is no longer produced" % (m["text"], m["line"])) if m["kind"] == "unmatched" \
            else ("new warning `%s` at line %d" % (m["text"], m["line"]))
        ctx.fail("NotLocal %s %s" % (m["dir"], schema), "%s/%s under transformation %s: %s" % (m["dir"], m["file"], m["variant"], what), {"mismatch": m})
    st, tr = vlib.tlc_states_total(ctx)
    cov = {
        "states": st, "transitions": tr, "traces_validated_against_impl": res["stats"]["variants"],
        "transformed_files": res["stats"]["variants"], "warnings_matched": res["stats"]["warnings"], "example_dirs": res["dirs"],
        "uncovered": res["uncovered"], "design": design, "exhaustive": False,
        "samples": [{"schemas": ["reverse", "rotate", "swap", "front", "back", "shuffle", "pad-all-<blank|var|func|type|bodyless|comment>", "pad-<kind>-before<i>", "append", "append-bodyless"]}],
    }
    return ctx.finish("model_checking", cov, ["only plain functions are reordered, among their own slots; methods, types, variables and imports keep their places",
                                              "parameters as in the repository's checker tests (captLocal.paramsOnly=false, commentedOutCode.minLength=9)"])
