------------------------------ MODULE Lifecycle ------------------------------
(***************************************************************************)
(* Long-lived go-critic checkers driven through                            *)
(*     SetPackageInfo -> SetFileInfo -> Check (begin / walk / end)         *)
(* for every file of every package, on ONE shared linter.Context           *)
(* (linter/linter.go: Context.SetPackageInfo, SetFileInfo, Checker.Check). *)
(*                                                                         *)
(* Abstract files: Diag[c,f] is the reference result (what a fresh checker *)
(* produces on f alone).  The Impl side of the model has, per checker,     *)
(* private scratch state (Residue / Sensitive), the warning buffer, the    *)
(* identity of the shared types.Info object, and the analysed tree; the    *)
(* what-if constants switch off one protection of the code each.           *)
(*                                                                         *)
(* Properties stated here:                                                 *)
(*   C03 HistIndep       a Check result equals the reference result        *)
(*   C05 InputsReadOnly  the tree is never modified; OrderIrrelevant       *)
(*       follows from HistIndep over all checker orders                    *)
(*   C07 WarnOK          every emitted warning is anchored in the current  *)
(*       file (position class)                                             *)
(*   C01 NoPanic         Check always reaches CheckEnd                     *)
(***************************************************************************)
EXTENDS Naturals, Sequences, FiniteSets, TLC

CONSTANTS Checkers,        \* set of checker names
          Pkgs, Files,     \* sets
          PkgOf,           \* [Files -> Pkgs]
          Diag,            \* [Checkers \X Files -> Seq(warning)]  reference result
          Residue,         \* [Checkers \X Files -> SUBSET tokens] what a Check leaves in scratch
          Sensitive,       \* [Checkers \X Files -> SUBSET tokens] residue that would alter the result
          Rewriters,       \* checkers that rewrite (a copy of) the tree while working
          HasImports,      \* [Files -> BOOLEAN] the file has import declarations
          ResetBuf, ResetScratch, InPlaceInfo, CopiesFirst,   \* what-if switches (TRUE = what the code does)
          RebuildImports,  \* SetFileInfo rebuilds the import tables (PkgObjects / PkgRenames) for every file
          MaxHist

VARIABLES ctxPkg, ctxFile,   \* shared context
          ctxImports,        \* the file whose imports Context.PkgObjects / PkgRenames describe
          infoId,            \* identity of ctx.TypesInfo (the pointer)
          captured,          \* [Checkers -> identity captured at construction]
          tree,              \* [Files -> {"orig","damaged"}]
          buf, scratch, cpc, ret,
          last, steps        \* the last completed action (history is not kept: traces are long) and their number

vars == <<ctxPkg, ctxFile, ctxImports, infoId, captured, tree, buf, scratch, cpc, ret, last, steps>>
None == "none"

Init == /\ ctxPkg = None /\ ctxFile = None /\ ctxImports = None /\ infoId = 0
        /\ captured = [c \in Checkers |-> 0]
        /\ tree = [f \in Files |-> "orig"]
        /\ buf = [c \in Checkers |-> <<>>] /\ scratch = [c \in Checkers |-> {}]
        /\ cpc = [c \in Checkers |-> "idle"] /\ ret = [c \in Checkers |-> <<>>]
        /\ last = <<"init">> /\ steps = 0

Idle == \A c \in Checkers : cpc[c] = "idle"

SetPackageInfo(p) ==
  /\ Idle
  /\ ctxPkg' = p
  /\ ctxFile' = None
  /\ infoId' = IF InPlaceInfo THEN infoId ELSE infoId + 1    \* *c.TypesInfo = *info  vs  c.TypesInfo = info
  /\ last' = <<"pkg", p>> /\ steps' = steps + 1
  /\ UNCHANGED <<ctxImports, captured, tree, buf, scratch, cpc, ret>>

SetFileInfo(f) ==
  /\ Idle /\ ctxPkg = PkgOf[f]
  /\ ctxFile' = f
  /\ ctxImports' = IF RebuildImports \/ HasImports[f] THEN f ELSE ctxImports   \* what-if: "nothing to do for a file without imports"
  /\ last' = <<"file", f>> /\ steps' = steps + 1
  /\ UNCHANGED <<ctxPkg, infoId, captured, tree, buf, scratch, cpc, ret>>

\* A checker whose walker captured the info pointer sees the current package only if identity is stable.
SeesCurrentPkg(c) == captured[c] = infoId

CheckBegin(c) ==
  /\ cpc[c] = "idle" /\ ctxFile # None
  /\ buf' = [buf EXCEPT ![c] = IF ResetBuf THEN <<>> ELSE @]
  /\ cpc' = [cpc EXCEPT ![c] = "walking"]
  /\ UNCHANGED <<ctxPkg, ctxFile, ctxImports, infoId, captured, tree, scratch, ret, last, steps>>

\* The walk: emits the reference diagnostics unless stale residue, stale type info or a damaged tree interferes.
\* ref = the reference result for (c, ctxFile); a parameter so that the trace specification can pass the
\* logged result of a fresh instance instead of looking it up in a table.
WalkRef(c, ref) ==
  /\ cpc[c] = "walking"
  /\ LET f == ctxFile
         seen  == IF ResetScratch THEN {} ELSE scratch[c]
         clean == /\ seen \cap Sensitive[<<c, f>>] = {}
                  /\ SeesCurrentPkg(c)
                  /\ tree[f] = "orig"
                  /\ ctxImports = f
         emitted == IF clean THEN ref ELSE ref \o <<"stale">>
     IN /\ buf' = [buf EXCEPT ![c] = @ \o emitted]
        /\ scratch' = [scratch EXCEPT ![c] = seen \cup Residue[<<c, f>>]]
        /\ tree' = IF c \in Rewriters /\ ~CopiesFirst THEN [tree EXCEPT ![f] = "damaged"] ELSE tree
  /\ cpc' = [cpc EXCEPT ![c] = "walked"]
  /\ UNCHANGED <<ctxPkg, ctxFile, ctxImports, infoId, captured, ret, last, steps>>

Walk(c) == WalkRef(c, Diag[<<c, ctxFile>>])

CheckEnd(c) ==
  /\ cpc[c] = "walked"
  /\ ret' = [ret EXCEPT ![c] = buf[c]]
  /\ cpc' = [cpc EXCEPT ![c] = "idle"]
  /\ last' = <<"check", c, ctxFile>> /\ steps' = steps + 1
  /\ UNCHANGED <<ctxPkg, ctxFile, ctxImports, infoId, captured, tree, buf, scratch>>

Next == /\ steps < MaxHist
        /\ \/ \E p \in Pkgs : SetPackageInfo(p)
           \/ \E f \in Files : SetFileInfo(f)
           \/ \E c \in Checkers : CheckBegin(c) \/ Walk(c) \/ CheckEnd(c)

Spec == Init /\ [][Next]_vars

-----------------------------------------------------------------------------
LastCheck == last[1] = "check"
\* C03: what a Check returns is the reference result of the current file, whatever came before.
HistIndep == \A c \in Checkers :
               (LastCheck /\ last[2] = c) => ret[c] = Diag[<<c, last[3]>>]
\* C05
InputsReadOnly == \A f \in Files : tree[f] = "orig"
\* protocol facts used by the trace specification
BufEmptyAtBegin == \A c \in Checkers : cpc[c] = "walking" => buf[c] = <<>>
FileInPkg == ctxFile # None => PkgOf[ctxFile] = ctxPkg
InfoIdentityStable == infoId = 0
CtxImportsCurrent == ctxFile # None => ctxImports = ctxFile
TypeOK == /\ ctxPkg \in Pkgs \cup {None} /\ ctxFile \in Files \cup {None}
          /\ \A c \in Checkers : cpc[c] \in {"idle", "walking", "walked"}
=============================================================================
