module example.com/illtyped

go 1.21
