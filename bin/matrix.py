#!/usr/bin/env python3
"""Run every seeded change against the checks that are expected to catch it (plus its own property's check) and record the outcome.

usage: matrix.py [<Cxx-N> ...]     writes /verif/seeded/MATRIX.json (merged) ; /repo is patched and restored for every entry
"""
import json
import os
import re
import subprocess
import sys
import time

VERIF = os.path.dirname(os.path.dirname(os.path.abspath(__file__)))
SEED = os.path.join(VERIF, "seeded")
# changes found by the check of another property as well (established during development)
ALSO = {"C01-2": ["C04"], "C14-2": ["C18"], "C17-3": ["C06"], "C01-6": ["C04"], "C01-7": ["C08"], "C14-4": ["C03"], "C18-7": ["C19"], "C20-6": ["C01", "C16"],
        "C01-8": ["C19"], "C07-8": ["C04"], "C10-8": ["C03"], "C11-8": ["C08"], "C13-8": ["C16"], "C14-8": ["C18"], "C17-8": ["C05"], "C18-8": ["C19"],
        "C02-9": ["C04"], "C03-9": ["C08"], "C08-9": ["C03"], "C11-9": ["C04"], "C17-9": ["C04"], "C19-0": ["C18"], "C20-0": ["C01"]}

THOROUGH = set()
SEEDS = {}


def main():
    # --shard i/n: every n-th entry starting at i (several workers, each with VERIF_REPO pointing at its own worktree;
    # the results are written to MATRIX.<i>.json and merged with --merge)
    args = sys.argv[1:]
    shard = None
    if args and args[0] == "--merge":
        merged = json.load(open(os.path.join(SEED, "MATRIX.json"))) if os.path.exists(os.path.join(SEED, "MATRIX.json")) else {}
        for f in sorted(os.listdir(SEED)):
            if re.match(r"^MATRIX\.\d+\.json$", f):
                merged.update(json.load(open(os.path.join(SEED, f))))
                os.remove(os.path.join(SEED, f))
        json.dump(merged, open(os.path.join(SEED, "MATRIX.json"), "w"), indent=1, sort_keys=True)
        print("merged", len(merged))
        return
    if args and args[0] == "--shard":
        shard = tuple(int(x) for x in args[1].split("/"))
        args = args[2:]
    want = args
    mpath = os.path.join(SEED, "MATRIX.json" if not shard else "MATRIX.%d.json" % shard[0])
    matrix = json.load(open(mpath)) if os.path.exists(mpath) else {}
    ids = sorted(d for d in os.listdir(SEED) if re.match(r"^C\d\d-\d$", d))
    if want:
        ids = [x for x in ids if x in want]
    if shard:
        ids = [x for k, x in enumerate(ids) if k % shard[1] == shard[0]]
    for sid in ids:
        d = os.path.join(SEED, sid)
        patch = os.path.join(d, "patch_ported.diff") if os.path.exists(os.path.join(d, "patch_ported.diff")) else os.path.join(d, "patch.diff")
        checks = [sid.split("-")[0]] + ALSO.get(sid, [])
        t = time.time()
        env = dict(os.environ)
        if sid in SEEDS:
            env["VERIF_SEED"] = SEEDS[sid]
        if sid in THOROUGH:
            env["VERIF_MUT_TIER"] = "thorough"      # the quick tier rotates the part of the corpus that holds this change's subject
        r = subprocess.run(["python3", os.path.join(VERIF, "bin", "muttest.py"), patch] + checks, capture_output=True, text=True, env=env)
        res = {}
        for c in checks:
            m = re.search(r"^%s (DETECTED|MISSED|INFRA)" % c, r.stdout, re.M)
            res[c] = m.group(1) if m else "NOT-RUN"
        first = re.search(r"what: (.*)", r.stdout)
        matrix[sid] = {"results": res, "tier": "thorough" if sid in THOROUGH else "quick", "seed": SEEDS.get(sid, "1"), "first_violation": first.group(1)[:300] if first else None, "wall_s": round(time.time() - t),
                       "note": r.stdout.strip().splitlines()[0][:200] if "NOT-RUN" in res.values() and r.stdout.strip() else None}
        print(sid, res, matrix[sid]["wall_s"], flush=True)
        json.dump(matrix, open(mpath, "w"), indent=1, sort_keys=True)
        mp = os.path.join(d, "meta.json")
        meta = json.load(open(mp))
        meta["detected_by"] = sorted(c for c, v in res.items() if v == "DETECTED")
        json.dump(meta, open(mp, "w"), indent=1)


if __name__ == "__main__":
    main()
