// Package percent: the % operator and % characters in every place a diagnostic may quote.
package percent

import (
	"fmt"
	"strings"
)

func ops(x, y int, s string, xs []int) (int, bool) {
	a := x % x
	b := x%y == x%y
	x = x % 2
	y = y % y
	if x%2 == 0 || x%2 == 0 {
		a++
	}
	if !(x%3 != 0) {
		a--
	}
	c := xs[x%len(xs)] % xs[x%len(xs)]
	_ = strings.Compare(s, "%d%s") == 0
	_ = fmt.Sprintf("%s", s)
	_ = fmt.Sprint("%v 100%")
	_ = s + "%!d" + s
	_ = len("%") >= 0
	_ = strings.Index(s, "%") >= 0
	_ = strings.Replace(s, "%", "%%", -1)
	switch true {
	case x%2 == 0:
	}
	return a + c, b
}

func percentNames(percent100, p int) int {
	if p%percent100 == p%percent100 {
		return p % 100 % 100
	}
	return percent100 % percent100
}
