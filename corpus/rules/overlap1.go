//go:build ignore

package gorules

import "github.com/quasilyte/go-ruleguard/dsl"

func overlap1(m dsl.Matcher) {
	m.Match(`$x = $x + 1`).Report(`overlap1: increment of $x`)
	m.Match(`len($s) >= 0`).Report(`overlap1: len of $s`)
}
