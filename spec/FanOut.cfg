SPECIFICATION Spec
CONSTANTS
  N = 4
  K = 2
  NFiles = 2
  WaitBeforePrint = TRUE
  ReleaseAfterCheck = TRUE
  PrivateSlots = TRUE
  TokenReturned = TRUE
  RecordSched = TRUE
INVARIANTS AtMostK NoCtxWriteDuringCheck PrintAfterAll SlotsComplete OutEqualsSequential TokensOK
VIEW View
