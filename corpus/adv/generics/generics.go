// Package generics: type parameters in every position.
package generics

import "sort"

type Number interface {
	~int | ~int64 | ~float64
}

type List[T any] struct {
	items []T
	next  *List[T]
}

func (l *List[T]) Push(v T) { l.items = append(l.items, v) }

func (l List[T]) Len() int { return len(l.items) }

func (l *List[_]) Blank() {}

type Pair[K comparable, V any] struct {
	Key K
	Val V
}

func (p Pair[K, V]) Swap() Pair[K, V] { return p }

func Map[T, U any](xs []T, f func(T) U) []U {
	out := make([]U, 0, len(xs))
	for _, x := range xs {
		out = append(out, f(x))
	}
	return out
}

func Sum[T Number](xs ...T) (s T) {
	for _, x := range xs {
		s = s + x
	}
	return
}

func Zero[T any]() T {
	return *new(T)
}

func Ptr[T any](v T) *T { return &v }

func SortBy[T any](xs []T, less func(a, b T) bool) {
	sort.Slice(xs, func(i, j int) bool { return less(xs[i], xs[j]) })
}

func Cmp[T comparable](a, b T) bool {
	if a == b {
		return true
	} else {
		if a != b {
			return false
		}
	}
	return a == a
}

func Use() {
	var l List[int]
	l.Push(1)
	_ = Map([]int{1}, func(i int) string { return "" })
	_ = Map[int, string]
	_ = Sum[int]()
	_ = Sum(1.5, 2.5)
	_ = Zero[struct{}]()
	_ = Pair[string, List[int]]{}
	_ = (Pair[string, int]{}).Swap()
	_ = Ptr(Ptr(0))
	_ = Cmp("a", "b")
	switch any(l).(type) {
	case List[int]:
	case *List[int], nil:
	case interface{ Len() int }:
	}
}
