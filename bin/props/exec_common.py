"""Executable program templates and the differential executor shared by C10 (behaviour preservation) and C09 (fix application).

A template is a function `func <name>(<typed params>) string` that returns fmt.Sprint of everything observable (results and the
log of side effects). The harness (`vh fixes -funcs`) returns, for every suggestion of a checker inside such a function, the
function with the edit applied; both versions are compiled into one program and run on the grid of input values of their
parameter types; a difference in output is a behaviour change (the Go toolchain is the oracle).
"""
import json
import os
import re
import subprocess

import vlib

GRID = {
    "int": ["-1", "0", "1", "2", "8", "9", "10", "11"],
    "Fl": ["Fl(-1.0)", "Fl(-0.5)", "Fl(0.0)", "Fl(0.5)", "Fl(1.0)", "Fl(math.NaN())"],
    "Str": ['Str("")', 'Str("a")', 'Str("ab")'],
    "Code": ['Code("")', 'Code("a")'],
    "float64": ["-1.0", "-0.5", "0.0", "0.5", "1.0", "math.NaN()"],
    "string": ['""', '"a"', '"ab"', '"k=v"', '"A"'],
    "[]byte": ["nil", '[]byte("a")', '[]byte("ab")'],
    "[]int": ["nil", "[]int{1, 2, 3}"],
    "error": ["nil", 'errors.New("e")'],
    "*T": ["&T{x: 3, arr: [2]int{4, 5}}"],
    "time.Time": ["time.Unix(1, 500000000)", "time.Unix(1234567, 891000000)", "time.Unix(-3, 1999)"],
    "bool": ["true", "false"],
    "*int": ["new(int)", "nil"],
    "fmt.Stringer": ["nil", "(*T)(nil)", "&T{x: 1}"],
}

MUTABLE = {"*int", "*T", "[]int", "[]byte"}

PRELUDE = '''package PKG

import (
	"bytes"
	"cmp"
	"errors"
	"fmt"
	"maps"
	"math"
	"slices"
	"strings"
	"time"
	"unicode"
)

var (
	_ = bytes.Equal
	_ = cmp.Compare[int]
	_ = maps.Equal[map[int]int, map[int]int]
	_ = slices.Equal[[]int]
	_ = errors.New
	_ = math.NaN
	_ = strings.Index
	_ = time.Unix
	_ = unicode.ToUpper
)

// Fl and Str are defined types over float64 and string.
type Fl float64
type Str string

// Code is a defined string type that formats through its Error method.
type Code string

func (c Code) Error() string { return "E" + string(c) }

// T is a small struct with a method set.
type T struct {
	x   int
	arr [2]int
}

func (t *T) String() string {
	if t == nil {
		return "<nil T>"
	}
	return fmt.Sprint("T", t.x)
}

func (t *T) get() int { return t.x }

var effects []string
var ctr int

// g is an impure operand: every evaluation is logged and returns a new value.
func g() int {
	ctr++
	effects = append(effects, fmt.Sprint("g", ctr))
	return ctr
}

// gs is an impure string operand.
func gs() string {
	ctr++
	effects = append(effects, fmt.Sprint("gs", ctr))
	return strings.Repeat("a", ctr%3)
}

// alt is an impure operand whose value alternates between 0 and 3 (the first call of a run returns 0).
func alt() int {
	ctr++
	effects = append(effects, fmt.Sprint("alt", ctr))
	if ctr%2 == 1 {
		return 0
	}
	return 3
}

func double(x int) int { return 2 * x }

// okf calls its argument (a boolean expression can hide another one inside a function literal).
func okf(f func() bool) bool { return f() }

type node struct {
	next *node
	val  int
}

func marker(k int) { effects = append(effects, fmt.Sprint("marker", k)) }

func fx() string { return fmt.Sprint(effects) }
'''


class Template:
    def __init__(self, name, params, body, tags=()):
        self.name = name
        self.params = params          # list of (name, type)
        self.body = body              # statements; must `return fmt.Sprint(..., fx())` style string
        self.tags = tags

    def source(self):
        ps = ", ".join("%s %s" % p for p in self.params)
        return "func %s(%s) string {\n%s\n}\n" % (self.name, ps, self.body)


def expr_template(name, params, expr, tags=()):
    return Template(name, params, "\treturn fmt.Sprint(%s, fx())" % expr, tags)


def write_package(d, pkg, templates, shard=40):
    """One module; the templates are sharded into small packages so that re-type-checking a fixed variant is cheap."""
    os.makedirs(d, exist_ok=True)
    with open(os.path.join(d, "go.mod"), "w") as f:
        f.write("module example.com/%s\n\ngo 1.21\n" % pkg)
    for i in range(0, len(templates), shard):
        sd = os.path.join(d, "s%04d" % (i // shard))
        os.makedirs(sd, exist_ok=True)
        with open(os.path.join(sd, "gen.go"), "w") as f:
            f.write(PRELUDE.replace("PKG", "s%04d" % (i // shard)) + "\n")
            for t in templates[i:i + shard]:
                f.write(t.source() + "\n")
    r = subprocess.run(["go", "vet", "-vettool=/bin/true", "./..."], cwd=d, env=vlib.goenv(), capture_output=True, text=True)
    r = subprocess.run(["go", "build", "./..."], cwd=d, env=vlib.goenv(), capture_output=True, text=True)
    if r.returncode != 0:
        raise vlib.Infra("generated template package does not compile: " + r.stderr[-2000:])


def run_fixes(ctx, d, checkers=None, tag="fx"):
    outp = ctx.path("%s_out.json" % tag)
    work = os.path.dirname(ctx.path("%s_work" % tag, "x"))
    args = ["fixes", "-dir", d, "-out", outp, "-work", work, "-funcs"]
    if checkers:
        args += ["-checkers", ",".join(checkers)]
    ctx.run_vh(args, timeout=3000)
    return json.load(open(outp))


def differential(ctx, templates, suggestions, tag="diff"):
    """Compile originals and fixed variants into one program, run on the input grid.

    Returns list of dicts {func, k, checker, text, inputs, orig, fixed} for every behavioural difference, and the number of
    (variant, input) executions.
    """
    by_name = {t.name: t for t in templates}
    variants = []
    for k, s in enumerate(suggestions):
        t = by_name.get(s.get("func"))
        if not t or not s.get("fixedSrc") or not s.get("typeOK"):
            continue
        fixed = re.sub(r"^func %s\(" % re.escape(t.name), "func %s__v%d(" % (t.name, k), s["fixedSrc"], count=1)
        variants.append((t, k, s, fixed))
    if not variants:
        return [], 0
    d = os.path.dirname(ctx.path(tag, "go.mod"))
    with open(os.path.join(d, "go.mod"), "w") as f:
        f.write("module example.com/%s\n\ngo 1.21\n" % tag)
    with open(os.path.join(d, "gen.go"), "w") as f:
        f.write(PRELUDE.replace("PKG", "main") + "\n")
        for t in templates:
            f.write(t.source() + "\n")
    with open(os.path.join(d, "variants.go"), "w") as f:
        f.write("package main\n\nimport (\n\t\"bytes\"\n\t\"errors\"\n\t\"fmt\"\n\t\"math\"\n\t\"strings\"\n\t\"time\"\n\t\"unicode\"\n)\n\nvar (\n\t_ = bytes.Equal\n\t_ = errors.New\n\t_ = fmt.Sprint\n\t_ = math.NaN\n\t_ = strings.Index\n\t_ = time.Unix\n\t_ = unicode.ToUpper\n)\n\n")
        for t, k, s, fixed in variants:
            f.write(fixed + "\n\n")
    with open(os.path.join(d, "main.go"), "w") as f:
        f.write("package main\n\nimport (\n\t\"errors\"\n\t\"fmt\"\n\t\"math\"\n\t\"time\"\n)\n\nvar (\n\t_ = errors.New\n\t_ = math.NaN\n\t_ = time.Unix\n)\n\n")
        f.write("func call(f func() string) (out string) {\n\teffects, ctr = nil, 0\n\tdefer func() {\n\t\tif r := recover(); r != nil {\n\t\t\tout = fmt.Sprint(\"panic: \", r, \" \", fx())\n\t\t}\n\t}()\n\treturn f()\n}\n\n")
        f.write("func deref(v interface{}) string {\n\tswitch x := v.(type) {\n\tcase *int:\n\t\tif x == nil {\n\t\t\treturn \"nil\"\n\t\t}\n\t\treturn fmt.Sprint(\"&\", *x)\n\tcase *T:\n\t\tif x == nil {\n\t\t\treturn \"nil\"\n\t\t}\n\t\treturn fmt.Sprintf(\"&%+v\", *x)\n\t}\n\treturn fmt.Sprint(v)\n}\n\n")
        f.write("var runs int\n\nfunc cmpOut(name string, k int, in string, a, b string) {\n\truns++\n\tif a != b {\n\t\tfmt.Printf(\"MISMATCH\\t%s\\t%d\\t%s\\t%s\\t%s\\n\", name, k, in, a, b)\n\t}\n}\n\n")
        f.write("func main() {\n")
        for t, k, s, fixed in variants:
            indent = "\t"
            names = []
            for (pn, pt) in t.params:
                vs = GRID[pt]
                if pt in MUTABLE:
                    # a fresh value for every call: both versions may write through it
                    f.write("%sfor _, %s_%d := range []func() %s{%s} {\n" % (indent, pn, k, pt, ", ".join("func() %s { return %s }" % (pt, v) for v in vs)))
                else:
                    f.write("%sfor _, %s_%d := range []%s{%s} {\n" % (indent, pn, k, pt, ", ".join(vs)))
                names.append("%s_%d" % (pn, k))
                indent += "\t"
            args = ", ".join((n + "()") if pt in MUTABLE else n for n, (_, pt) in zip(names, t.params))
            inp = "fmt.Sprint(%s)" % (", ".join(["\" %s=\", %s" % (n.rsplit("_", 1)[0], (("deref(%s())" % n) if pt in MUTABLE else n)) for n, (_, pt) in zip(names, t.params)]) or '""')
            f.write("%scmpOut(\"%s\", %d, %s, call(func() string { return %s(%s) }), call(func() string { return %s__v%d(%s) }))\n"
                    % (indent, t.name, k, inp, t.name, args, t.name, k, args))
            for _ in t.params:
                indent = indent[:-1]
                f.write("%s}\n" % indent)
        f.write("\tfmt.Println(\"RUNS\", runs)\n}\n")
    r = subprocess.run(["go", "build", "-o", "diffprog", "."], cwd=d, env=vlib.goenv(), capture_output=True, text=True, timeout=1800)
    if r.returncode != 0:
        raise vlib.Infra("differential program does not compile (a fixed variant that type-checked in isolation?): " + r.stderr[-3000:])
    r = subprocess.run(["./diffprog"], cwd=d, capture_output=True, text=True, timeout=1800)
    if r.returncode != 0:
        raise vlib.Infra("differential program failed: " + (r.stderr or r.stdout)[-2000:])
    out = []
    runs = 0
    sug = {k: s for (t, k, s, fx) in variants}
    for line in r.stdout.splitlines():
        if line.startswith("RUNS"):
            runs = int(line.split()[1])
        elif line.startswith("MISMATCH"):
            _, name, k, inp, a, b = line.split("\t", 5)
            s = sug[int(k)]
            out.append({"func": name, "k": int(k), "checker": s["checker"], "text": s["text"], "inputs": inp, "orig": a, "fixed": b})
    return out, runs
