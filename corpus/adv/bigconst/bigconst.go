// Package bigconst: very long constant strings (built by constant concatenation) in places where checkers parse them.
package bigconst

import (
	"fmt"
	"regexp"
)

const c0 = "abcdefghijklmnop"
const c1 = c0 + c0
const c2 = c1 + c1
const c3 = c2 + c2
const c4 = c3 + c3
const c5 = c4 + c4
const c6 = c5 + c5
const c7 = c6 + c6
const c8 = c7 + c7
const c9 = c8 + c8
const c10 = c9 + c9
const c11 = c10 + c10
const c12 = c11 + c11
const c13 = c12 + c12

var (
	_ = regexp.MustCompile(c13)
	_ = regexp.MustCompile(`(?i)` + c12 + c12)
	_, _ = regexp.Compile(c13 + `[a-z]+`)
	_ = fmt.Sprintf(c13+"%d", 1)
)
