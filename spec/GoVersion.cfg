SPECIFICATION SpecParse
CONSTANTS
  LexicographicMinor = FALSE
INVARIANTS ParseConforms NumericGE
