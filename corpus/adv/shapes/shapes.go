// Package shapes holds legal but unusual Go: parenthesised receivers and types, blank
// identifiers, empty constructs, bare returns, function-valued fields, multi-value forwarding.
package shapes

import (
	"errors"
	"fmt"
	"os"
	"sort"
	"strings"
)

type T struct {
	f    func() int
	g    func(int) (int, error)
	name string
}

func ((T)) parenRecv() {}

func ((*T)) parenPtrRecv() {}

func (_ T) blankRecv(_ int, _ string) (_ int, _ error) { return }

func (T) noNameRecv() {}

type (
	E  struct{}
	I  interface{}
	F  func()
	P  (*int)
	PP ((int))
	M  map[string](func() (int, error))
)

func two() (int, error) { return 1, nil }

func three() (a int, b string, err error) { return }

func take2(int, error) {}

func take3(int, string, error) {}

func variadic(xs ...int) int { return len(xs) }

func forward() {
	take2(two())
	take3(three())
	fmt.Println(two())
	_ = variadic()
	_ = variadic([]int{}...)
}

func fieldCalls(t T, pt *T) (int, int) {
	return t.f(), pt.f()
}

func fieldCalls2(t T) (T, int) {
	return t, t.f()
}

func fieldCalls3(t *T) (int, error, string) {
	a, b := t.g(1)
	return a, b, t.name
}

func bare() (x int, err error) {
	defer func() {
		if r := recover(); r != nil {
			return
		}
	}()
	if x > 0 {
		return
	}
	for {
		break
	}
	switch {
	}
	switch x {
	}
	switch y := interface{}(x).(type) {
	default:
		_ = y
	}
	select {
	default:
	}
	{
	}
	if true {
	} else {
	}
	for range []int{} {
	}
	for i := 0; i < 0; i++ {
	}
	goto end
end:
	return
}

func sortCalls(xs []int, ys []string) {
	sort.Slice(xs, func(i, j int) bool { return xs[i] < xs[j] })
	sort.Slice(ys, func(i, j int) bool { return ys[i] < ys[j] })
	less := func(i, j int) bool { return xs[j] < xs[i] }
	sort.Slice(xs, less)
	sort.SliceStable(xs, func(_, _ int) bool { return false })
}

func lits() {
	_ = []int{}
	_ = [...]int{}
	_ = map[string]int{}
	_ = struct{}{}
	_ = T{}
	_ = &T{}
	_ = (*T)(nil)
	_ = (func())(nil)
	_ = [](func()){}
	_ = [0]int{}
	var _ = 0
	var _, _ = 0, 0
	const _ = 0
	type _ int
	_ = func() {}
	func() {}()
	_ = strings.Repeat("", 0)
	_ = errors.New("")
	if len(os.Args) < 0 {
	}
}

func closures() func() func() int {
	return func() func() int {
		return func() int { return 0 }
	}
}

func labels() {
outer:
	for {
		for {
			continue outer
		}
	}
}

func deref() {
	x := new(int)
	_ = *x
	_ = *new(int)
	_ = *new(string)
	_ = *new(complex128)
	_ = *new(*int)
	_ = *new([]int)
	_ = *new(func())
	_ = *new(struct{})
	_ = *new(T)
	_ = *new(interface{})
	_ = *new(map[string]int)
	_ = *new(chan int)
	_ = *new([2]int)
	_ = *new(error)
	_ = *new(float32)
	_ = *new(bool)
	_ = *new(rune)
	_ = *new(uintptr)
}

func conv(x int, s string, b []byte) {
	_ = string(b) == s
	_ = []byte(s)
	_ = int(x)
	_ = (int)(x)
	_ = ((int))(x)
	_ = float64(x) + 1.5
	_ = complex(1, 2)
}

var Done chan struct{}

var (
	_ = Done
	V1, V2 = two()
)

func init() {}

func init() { _ = V1; _ = V2 }

// parenthesised operands and literals in simplifiable conditions
func parenConds(x, y int, f float64, s string) bool {
	a := x > (1) && x < (3)
	b := (x) >= (0x10) && (x) <= ((0x10))
	c := !(x == (y)) || !(!(x > (y)))
	d := (f) > (1.5) && (f) < (2.5)
	e := ((x)) < (-10) && ((x)) > (10)
	g := x == (1) || x == (2) || (x) == (1)
	h := (len(s)) >= (0) && (len(s) < (0))
	return a || b || c || d || e || g || h
}

// local declarations in every form
func localDecls() int {
	const (
		mon = iota
		tue
		wed
	)
	const (
		k1, k2 = 1, 2
		k3, k4
	)
	const single = 3
	var (
		v1, v2 int
		v3     = 1
		v4, v5 = two()
		_      = 0
	)
	var w1, w2 = 1, "s"
	type (
		local1 int
		local2 = string
	)
	var append, copy, len, new, nil_ int
	var fmt, os, strings int
	_, _, _, _, _, _ = v1, v2, v3, v4, v5, w1
	_, _ = w2, local1(0)
	_ = local2("")
	return mon + tue + wed + k1 + k2 + k3 + k4 + single + append + copy + len + new + nil_ + fmt + os + strings
}

// reversed counting loops (the condition can never become true / false the way the author meant)
func reversedLoops(n int, xs []int) int {
	s := 0
	for i := 0; i > n; i++ {
		s += i
	}
	for i := n; i < 0; i-- {
		s += i
	}
	for i := 0; i > len(xs); i++ {
		s += xs[i]
	}
	for i, j := 0, n; i > j; i++ {
		s += i
	}
	return s
}

// returns whose results depend on the evaluation order (an argument is mutated through its address)
func bumpShapes(x *int) int {
	*x += 10
	return *x
}

func orderDependentShapes(a, b, c, d int) (int, int, int, int, int, int, int, int) {
	f := func() (int, int) { return a, bumpShapes(&a) }
	g := func() (int, int) { return bumpShapes(&b), b }
	h := func() (int, int) { return c, bumpShapes(&d) }
	k := func() (int, int) { return d, bumpShapes(&d) }
	a1, a2 := f()
	b1, b2 := g()
	c1, c2 := h()
	d1, d2 := k()
	return a1, a2, b1, b2, c1, c2, d1, d2
}
