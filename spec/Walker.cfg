SPECIFICATION Spec
CONSTANTS
  MaxLen = 4
  ContinueOnBodyless = TRUE
  EnterPerDecl = TRUE
  ResetPerFunc = TRUE
INVARIANTS Local
