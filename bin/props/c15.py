"""C15 - the configured Go version bounds what is suggested.

Spec: GoVersion.tla - every version string of a token grammar ([prefix] major sep minor [suffix]) is an initial state: ParseConforms
(the transcription of ParseGoVersion accepts exactly '1.N' / 'go1.N' and the empty string) and NumericGE (comparison is numeric in
major and minor; the lexicographic what-if is refuted). Every string is also run through the real ParseGoVersion / GreaterOrEqual.
Gate: for every target V from 1.13 to the newest release known to $GOROOT/api, plus 'not configured' and a far-future version, all
registered checkers are constructed on a context carrying V and analyse the example files and the adversarial corpus (version-gated
constructs); every standard-library function, method or builtin named in the recommendation part of a diagnostic (not occurring on
the flagged source line) is looked up in $GOROOT/api/go1.*.txt and must not have been introduced after V.
"""
import glob
import json
import os
import re
import subprocess

import vlib
from props import gen_common

GCFG = """SPECIFICATION SpecParse
CONSTANTS
  LexicographicMinor = %s
INVARIANTS ParseConforms NumericGE
"""
BUILTINS = {"clear": 21, "min": 21, "max": 21}


def api_table():
    goroot = subprocess.run(["go", "env", "GOROOT"], capture_output=True, text=True, env=vlib.goenv()).stdout.strip()
    funcs, methods = {}, {}
    newest = 0
    for f in glob.glob(os.path.join(goroot, "api", "go1*.txt")):
        m = re.match(r"go1(?:\.(\d+))?\.txt", os.path.basename(f))
        v = int(m.group(1) or 0)
        newest = max(newest, v)
        for line in open(f):
            mm = re.match(r"pkg ([\w/.]+)(?: \([\w-]+\))?, func (\w+)\(", line)
            if mm:
                k = mm.group(1).split("/")[-1] + "." + mm.group(2)
                funcs[k] = min(funcs.get(k, 99), v)
                continue
            mm = re.match(r"pkg ([\w/.]+)(?: \([\w-]+\))?, method \(\*?(\w+)(?:\[[^\]]*\])?\) (\w+)\(", line)
            if mm:
                methods[mm.group(3)] = min(methods.get(mm.group(3), 99), v)
                continue
            mm = re.match(r"pkg ([\w/.]+)(?: \([\w-]+\))?, (?:var|const|type) (\w+) ", line)
            if mm:
                k = mm.group(1).split("/")[-1] + "." + mm.group(2)
                funcs[k] = min(funcs.get(k, 99), v)
    if len(funcs) < 3000:
        raise vlib.Infra("could not read the API history from %s/api" % goroot)
    return funcs, methods, newest


LINE = re.compile(r"^(.*?\.go):(\d+):(\d+): (\w+): (.*)$")


def end_to_end(ctx, gdir, funcs, methods):
    """-go plumbing of the real binaries: several packages with version-gated constructs, targets 1.14 / 1.16 / 1.17."""
    import shutil
    d = os.path.join(ctx.scratch, "c15ws")
    os.makedirs(d)
    open(os.path.join(d, "go.mod"), "w").write("module example.com/c15\n\ngo 1.21\n")
    src = open(os.path.join(gdir, "gated", "gated.go")).read()
    for i in range(3):
        os.makedirs(os.path.join(d, "g%d" % i))
        open(os.path.join(d, "g%d" % i, "gated.go"), "w").write(src.replace("package gated", "package g%d" % i))
    bins = {"cli": (ctx.build_repo_bin("cmd/go-critic"), ["check", "-enableAll"]), "analysis": (ctx.build_repo_bin("cmd/go-critic-analysis"), ["-enable-all"])}
    n = 0
    for fe, (b, pre) in bins.items():
        for v, form in ((14, "1.%d"), (16, "1.%d"), (17, "1.%d"), (14, "go1.%d"), (16, "go1.%d")):
            for rep in range(2 if fe == "analysis" and form == "1.%d" else 1):
                r = subprocess.run([b] + pre + ["-go=" + form % v, "./..."], cwd=d, capture_output=True, text=True, env=vlib.goenv(), timeout=600)
                n += 1
                lines_src = src.splitlines()
                for l in (r.stderr + r.stdout).splitlines():
                    m = LINE.match(l.strip())
                    if not m:
                        continue
                    srcline = lines_src[int(m.group(2)) - 1] if int(m.group(2)) <= len(lines_src) else ""
                    for name, intro in recommended(m.group(5), srcline, funcs, methods):
                        if intro > v:
                            ctx.fail("TooNew e2e %s %s" % (fe, m.group(4)), "%s -go=1.%d: %s recommends %s (introduced in go1.%d) in package %s: %s"
                                     % (fe, v, m.group(4), name, intro, os.path.basename(os.path.dirname(m.group(1))), m.group(5)[:120]), {"frontend": fe, "version": v, "line": l})
    return {"invocations": n}


def recommended(text, src, funcs, methods):
    """(name, intro) for every std API named in the message but not on the flagged source line."""
    out = []
    for m in re.finditer(r"\b([a-z][a-z0-9]*)\.([A-Z][A-Za-z0-9_]*)", text):
        name = m.group(1) + "." + m.group(2)
        if name in funcs and name not in src:
            out.append((name, funcs[name]))
        elif m.group(2) in methods and ("." + m.group(2)) not in src and name not in funcs:
            out.append(("(method) " + m.group(2), methods[m.group(2)]))
    for b, v in BUILTINS.items():
        if re.search(r"\b%s\(" % b, text) and not re.search(r"\b%s\(" % b, src):
            out.append(("(builtin) " + b, v))
    return out


def run(ctx):
    thorough = ctx.tier == "thorough"
    design = {}
    r = ctx.tlc("GoVersion", cfg_text=GCFG % "FALSE", workers=4, timeout=300, dump="gover", expect="ok")
    design["version_strings"] = r.distinct
    r2 = ctx.tlc("GoVersion", cfg_text=GCFG % "TRUE", workers=2, timeout=300, expect="violation")
    design["whatif_lexicographic_minor"] = r2.violated
    states = vlib.parse_dump(ctx.spec_path("gover.dump"))
    by_str = {}
    for s in states:
        st = s["pre"] + s["maj"]["t"] + s["sep"] + s["min"]["t"] + s["suf"]
        if (s["sep"] != "" or s["suf"] != ".1"):
            by_str.setdefault(st, s["doc"])
    strs = sorted(by_str)
    inp, outp = ctx.path("gv_in.json"), ctx.path("gv_out.json")
    json.dump(strs, open(inp, "w"))
    ctx.run_vh(["goversion", "-in", inp, "-out", outp])
    others = [(1, 9), (1, 13), (1, 18), (2, 0), (1, 21)]
    evaluated = 0
    for o in json.load(open(outp)):
        doc = by_str[o["s"]]
        evaluated += 1
        if doc[0] == "err":
            if "err" not in o:
                ctx.fail("VersionAccepted", "ParseGoVersion accepts the malformed version %r as %s.%s" % (o["s"], o.get("major"), o.get("minor")), {"s": o["s"]})
        elif "err" in o:
            ctx.fail("VersionRejected", "ParseGoVersion rejects %r: %s" % (o["s"], o["err"]), {"s": o["s"]})
        elif doc[0] == "ok":
            if (o["major"], o["minor"]) != (doc[1], doc[2]):
                ctx.fail("VersionMisparsed", "ParseGoVersion(%r) = %s.%s, expected %s.%s" % (o["s"], o["major"], o["minor"], doc[1], doc[2]), {"s": o["s"]})
            for (wmaj, wmin), ge in zip(others, o["ge"]):
                if ge != ((doc[1], doc[2]) >= (wmaj, wmin)):
                    ctx.fail("NotNumericCompare", "%r >= %d.%d evaluates to %s" % (o["s"], wmaj, wmin, ge), {"s": o["s"]})
        elif doc[0] == "any" and (o.get("major"), o.get("minor")) != (0, 0):
            ctx.fail("EmptyVersion", "the empty version parses to %s" % o, {"s": o["s"]})

    funcs, methods, newest = api_table()
    gdir = gen_common.generate(ctx, "c15")
    versions = list(range(13, newest + 1)) if thorough else sorted({13, 14, 16, 17, 18, 20, 21, newest})
    vstrs = ["1.%d" % v for v in versions]
    outp = ctx.path("gate.json")
    ctx.run_vh(["gate", "-corpus", "examples,dir:" + gdir, "-versions", ",".join(["", "1.99"] + vstrs), "-out", outp], timeout=3000)
    gate = json.load(open(outp))
    recs = 0
    api_seen = {}
    for v, vs in zip(versions, vstrs):
        for w in gate[vs]:
            for name, intro in recommended(w["text"] + " " + (w.get("fix") or ""), w["src"], funcs, methods):
                recs += 1
                api_seen[name] = intro
                if intro > v:
                    ctx.fail("TooNew %s %s" % (w["checker"], name), "target go%s: %s recommends %s (introduced in go1.%d): %s  [%s]"
                             % (vs, w["checker"], name, intro, w["text"][:160], w["pos"]), {"version": vs, "warning": w})
    key = lambda ws: sorted((w["checker"], w["pos"], w["text"]) for w in ws)
    # the version may also be set on the context after the checkers were constructed: same diagnostics
    outl = ctx.path("gate_late.json")
    lv = [vstrs[0], "1.16", "1.17"]
    ctx.run_vh(["gate", "-late", "-corpus", "dir:" + gdir, "-versions", ",".join(lv), "-out", outl], timeout=3000)
    late = json.load(open(outl))
    for vs in lv:
        if vs not in gate:
            continue
        adv_only = [w for w in gate[vs] if "/corpus_adv/" in w["pos"]]
        if key(late[vs]) != key(adv_only):
            a, b = set(key(late[vs])), set(key(adv_only))
            extra = sorted(a - b)[:3]
            ctx.fail("VersionSetLateIgnored", "target go%s set on the context after the checkers were constructed: diagnostics differ from setting it before: %s"
                     % (vs, extra or sorted(b - a)[:3]), {"version": vs})
    e2e = end_to_end(ctx, gdir, funcs, methods)
    if key(gate["unset"]) != key(gate["1.99"]):
        a, b = set(key(gate["unset"])), set(key(gate["1.99"]))
        ctx.fail("UnsetNotNewest", "with no version configured the diagnostics differ from those of a far-future version: %s" % sorted(a ^ b)[:3], {})
    if (len(api_seen) < 15 or not any(i >= 17 for i in api_seen.values())) and not ctx.violations:
        raise vlib.Infra("gate run is vacuous: %d APIs recognised" % len(api_seen))
    # gating must actually happen somewhere (anti-vacuity): the oldest target sees fewer recommendations than the newest
    if len(gate[vstrs[0]]) >= len(gate["unset"]) and not ctx.violations:
        raise vlib.Infra("no version-gated diagnostic in the corpus")
    st, tr = vlib.tlc_states_total(ctx)
    cov = {
        "states": st, "transitions": tr, "traces_validated_against_impl": evaluated + len(versions),
        "version_strings": len(strs), "targets": vstrs, "recommendations_checked": recs, "distinct_apis": len(api_seen),
        "end_to_end": e2e, "diagnostics_unset": len(gate["unset"]), "diagnostics_oldest": len(gate[vstrs[0]]), "design": design, "exhaustive": thorough,
        "samples": [{"api": k, "introduced": "go1.%d" % v} for k, v in sorted(api_seen.items(), key=lambda kv: -kv[1])[:5]],
    }
    return ctx.finish("model_checking", cov, ["user rule files (the dynamic ruleguard checker does not forward the version) are outside the claim",
                                              "method names are looked up by their oldest introduction on any type (conservative)"])
