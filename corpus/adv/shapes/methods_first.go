package shapes

func (r Later) m1() int { return r.x }

func (r *Later) m2() {}

type Later struct{ x int }

type (
	Grouped1 int
	Grouped2 struct{ Retries (int) }
)

func (Grouped1) m() {}

type Options struct{ Retries (int) }

type Iface interface {
	M((int)) (int)
	N(func((int)))
}
