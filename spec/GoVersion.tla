------------------------------ MODULE GoVersion ------------------------------
(***************************************************************************)
(* linter/go_version.go: version strings, their parsing and comparison,    *)
(* and the gate that bounds what is recommended.                           *)
(*                                                                         *)
(* Part 1 (SpecParse): a version string is a sequence of tokens            *)
(*      [prefix] major sep minor [suffix]                                  *)
(* every combination is an initial state.  DocParse: accepted iff major    *)
(* and minor are decimal numbers separated by exactly one dot, optionally  *)
(* prefixed by "go"; the empty string means "no version" = newest.         *)
(* ImplParse transcribes ParseGoVersion (TrimPrefix "go", Split ".",       *)
(* Atoi).  Numeric comparison: GE.  LexicographicMinor is a what-if.       *)
(*                                                                         *)
(* Part 2 (SpecGate): Gate == a recommendation of an API introduced in     *)
(* 1.I is made only for targets V >= 1.I (or no target).                   *)
(***************************************************************************)
EXTENDS Integers, Sequences, FiniteSets, TLC
CONSTANTS LexicographicMinor

Prefixes == {"", "go", "Go", "v"}
\* number tokens: [text, value or -1 when not a decimal number]
Nums == { [t |-> "1", v |-> 1], [t |-> "2", v |-> 2], [t |-> "01", v |-> 1], [t |-> "9", v |-> 9], [t |-> "13", v |-> 13],
          [t |-> "18", v |-> 18], [t |-> "018", v |-> 18], [t |-> "21", v |-> 21], [t |-> "x", v |-> -1], [t |-> "", v |-> -1], [t |-> "1a", v |-> -1] }
Seps == {".", "", ".."}
Suffixes == {"", ".1", "rc1"}

VARIABLES pre, maj, sep, min, suf,       \* the string
          doc, impl,                      \* predictions: <<"ok", major, minor>> or <<"err">> or <<"any">>
          other                           \* a second (accepted) version for the comparison
vars == <<pre, maj, sep, min, suf, doc, impl, other>>

Str == pre \o maj.t \o sep \o min.t \o suf
IsEmpty == maj.t = "" /\ sep = "" /\ min.t = "" /\ suf = ""
DocParse == IF pre \in {"", "go"} /\ IsEmpty THEN <<"any">>
            ELSE IF pre \in {"", "go"} /\ maj.v >= 0 /\ min.v >= 0 /\ sep = "." /\ suf = "" THEN <<"ok", maj.v, min.v>>
            ELSE <<"err">>
\* the code: strings.TrimPrefix(version, "go"); "" -> zero value; Split "."; exactly two parts; Atoi both
ImplParse ==
  LET rest == maj.t \o sep \o min.t \o suf
      stripped == pre = "go" \/ pre = ""
      \* number of "." in the remaining string decides the number of parts
      dots == (IF sep = "." THEN 1 ELSE IF sep = ".." THEN 2 ELSE 0) + (IF suf = ".1" THEN 1 ELSE 0)
  IN IF ~stripped THEN <<"err">>                       \* "Go1.18": two parts but Atoi("Go1") fails; "v1.18" likewise
     ELSE IF rest = "" THEN <<"any">>
     ELSE IF dots # 1 THEN <<"err">>
     ELSE IF sep = "." THEN (IF maj.v >= 0 /\ min.v >= 0 /\ suf = "" THEN <<"ok", maj.v, min.v>> ELSE <<"err">>)
     ELSE <<"err">>                                      \* the single dot is in the suffix: "118.1" style -> parts are majminor and "1"
\* what-if: comparing the minor parts as strings ("9" > "13"); LexKey orders one- and two-digit numbers that way
LexKey(n) == IF n < 10 THEN n * 10 + 5 ELSE n
GE(v, w) == IF v[1] = "any" THEN TRUE
            ELSE IF v[2] = w[2] THEN (IF LexicographicMinor THEN LexKey(v[3]) >= LexKey(w[3]) ELSE v[3] >= w[3])
            ELSE v[2] >= w[2]

Others == { <<"ok", 1, 9>>, <<"ok", 1, 13>>, <<"ok", 1, 18>>, <<"ok", 2, 0>>, <<"ok", 1, 21>> }
InitParse == /\ pre \in Prefixes /\ maj \in Nums /\ sep \in Seps /\ min \in Nums /\ suf \in Suffixes
             /\ doc = DocParse /\ impl = ImplParse /\ other \in Others
Next == UNCHANGED vars
SpecParse == InitParse /\ [][Next]_vars
\* strings whose single dot sits in the suffix ("118.1", "1.1") are a different string family; they are excluded from the
\* sweep by construction of ImplParse's last branch only when it cannot be an accepted "1.N" spelling
ParseConforms == (sep # "" \/ suf # ".1") => impl = doc
NumericGE == doc[1] = "ok" => (GE(doc, other) <=> (doc[2] > other[2] \/ (doc[2] = other[2] /\ doc[3] >= other[3])))
=============================================================================
