SPECIFICATION TSpec
INVARIANTS NoPanic CfgOrErr NoPartial NoParamRace WrittenOnce AllReturned
POSTCONDITION Accepted
CHECK_DEADLOCK FALSE
