"""C07 - every diagnostic points at a real syntactic element of the analysed file.

Spec: the Warn obligations (PosValid, PosInCurrentFile, AtTokenOrCommentStart, FixWellFormed, TextOK) are guards of the
Walked action of TraceLifecycle.tla (warnOK), evaluated on every recorded Check of every checker over the corpora
(example files, generated adversarial programs; thorough: std and the repository itself, and all parameter corners).
"""
import vlib
from props import lifecycle_common as lc
from props import gen_common


def run(ctx):
    thorough = ctx.tier == "thorough"
    design = lc.design(ctx, [], coverage=False)
    gdir = gen_common.generate(ctx, "c07")
    plans = [("examples", ["-corpus", "examples", "-mode", "cli", "-oblig", "c07"]),
             ("examples_min", ["-corpus", "examples", "-mode", "cli", "-oblig", "c07", "-params", "min"])]
    if gdir:
        plans.append(("generated", ["-corpus", "dir:" + gdir, "-mode", "cli", "-oblig", "c07"]))
    if thorough:
        plans.append(("examples_max", ["-corpus", "examples", "-mode", "cli", "-oblig", "c07", "-params", "max"]))
        plans.append(("std_repo", ["-corpus", "std,repo", "-mode", "cli", "-oblig", "c07"]))
        plans.append(("std_min", ["-corpus", "std:60", "-mode", "cli", "-oblig", "c07", "-params", "min"]))
    events = states = checks = warns = nontriv = 0
    first_trace = None
    samples = []
    for tag, args in plans:
        res, trace = lc.run_harness(ctx, "c07_" + tag, args, timeout=6000)
        first_trace = first_trace or trace
        e, s = lc.judge(ctx, res, trace)
        events += e
        states += s
        checks += res["checks"]
        warns += res["warnings"]
        nontriv += res["nontrivial_checks"]
        samples += res["samples"][:2]
        for n in res["nonconf"]:
            if n["kind"] == "WarnObligation":
                for d in n["detail"]:
                    oblig = d.split(" :: ")[0].split(":")[0]
                    ctx.fail("%s %s" % (oblig.split(",")[0], n["checker"]),
                             "diagnostic of %s while analysing %s violates %s" % (n["checker"], n["file"], d),
                             {"cmd": "vh lifecycle " + " ".join(args), "nonconf": n})
            elif n["kind"] == "ProtocolSkipped":
                probs = [d for d in n["detail"] if d.startswith("obligation ")]
                if probs:
                    ctx.fail("%s %s" % (probs[0].split()[1].split(",")[0].split(":")[0], n["checker"]),
                             "%s returned diagnostics for %s without walking it: %s" % (n["checker"], n["file"], probs[0]), {"nonconf": n})
            elif n["kind"] in ("Panic", "Timeout"):
                ctx.notes.append("%s of %s on %s (a C01 matter)" % (n["kind"], n["checker"], n["file"]))
    lc.canary(ctx, first_trace, lambda e: dict(e, warnOK=False) if e["ev"] == "Walked" and e["got"] != "" else None)
    st, tr = vlib.tlc_states_total(ctx)
    cov = {
        "states": st, "transitions": tr, "traces_validated_against_impl": len(plans),
        "events_validated": events, "checks": checks, "warnings_examined": warns, "checks_with_warnings": nontriv,
        "corpora": [p[0] for p in plans], "design": design, "exhaustive": False,
        "samples": samples[:6] or ["(none)"],
    }
    return ctx.finish("model_checking", cov, [
        "token table = go/scanner over the bytes of the physical file the position belongs to (//line directives ignored)",
        "'<nil>' counts as an artefact only when the analysed file does not contain that text itself",
    ])
