---------------------------- MODULE ParamsReconf ----------------------------
(***************************************************************************)
(* Params.tla, part 3: a program that embeds the go/analysis front-end and *)
(* re-configures it between runs (analyzer.DisableCache = TRUE, or a fresh *)
(* configuration per run): every run goes Parse (flag := given value, or   *)
(* keeps the previous one) -> Assign (newGocritic copies the flag values   *)
(* into the shared CheckerParam objects) -> Construct (reads them).        *)
(* Used = what is configured NOW, in every run.                            *)
(* What-if AssignEveryRun = FALSE: the copy is made once per process (a    *)
(* sync.Once around it) - the first run freezes the parameters.            *)
(***************************************************************************)
EXTENDS Naturals, Sequences
CONSTANTS Runs, AssignEveryRun
Given == {"notGiven", "v1", "v2"}
VARIABLES given, run, pc, flag, val, used, assigned
vars == <<given, run, pc, flag, val, used, assigned>>
Val(g, prev) == IF g = "notGiven" THEN prev ELSE g
Init == /\ given \in [1..Runs -> Given] /\ run = 1 /\ pc = "bound"
        /\ flag = "default" /\ val = "default" /\ used = "none" /\ assigned = FALSE
Parse == pc = "bound" /\ flag' = Val(given[run], flag) /\ pc' = "parsed" /\ UNCHANGED <<given, run, val, used, assigned>>
Assign == /\ pc = "parsed" /\ val' = (IF AssignEveryRun \/ ~assigned THEN flag ELSE val) /\ assigned' = TRUE
          /\ pc' = "assigned" /\ UNCHANGED <<given, run, flag, used>>
Construct == pc = "assigned" /\ used' = val /\ pc' = "constructed" /\ UNCHANGED <<given, run, flag, val, assigned>>
Reconfigure == pc = "constructed" /\ run < Runs /\ run' = run + 1 /\ pc' = "bound" /\ UNCHANGED <<given, flag, val, used, assigned>>
Next == Parse \/ Assign \/ Construct \/ Reconfigure
Spec == Init /\ [][Next]_vars
RECURSIVE Effective(_)
Effective(k) == IF k = 0 THEN "default" ELSE Val(given[k], Effective(k - 1))
UsedIsConfiguredNow == pc = "constructed" => used = Effective(run)
=============================================================================
