-------------------------------- MODULE Paths --------------------------------
(***************************************************************************)
(* cmd/go-critic/check.go shortenLocation and the file filters of          *)
(* checkPackage.                                                           *)
(*                                                                         *)
(* Part 1 - locations.  Absolute paths are sequences of segments; SegLen   *)
(* gives character lengths ("return the representation that is shorter").  *)
(* Every layout (working directory, GOPATH, GOROOT, file) is an initial    *)
(* state, including one path occurring inside another and equal roots.     *)
(*   DocShorten  a location is ./-relative (file below the working dir),   *)
(*               $GOPATH/ or $GOROOT/ prefixed (file below that root), or  *)
(*               absolute, and Resolve(printed) = the real file            *)
(*   ImplShorten what the code does; PrefixCheck = FALSE: the working      *)
(*               directory is replaced at its first OCCURRENCE             *)
(*               (strings.Replace) - the behaviour of the pinned tree      *)
(*                                                                         *)
(* Part 2 - filters.  Skip(f) == (~checkTests /\ IsTest(f)) \/             *)
(* (~checkGenerated /\ Generated(f)), with Generated three-valued per      *)
(* header class (see HeaderDoc).                                           *)
(***************************************************************************)
EXTENDS Naturals, Sequences, FiniteSets, TLC
CONSTANTS Segs, SegLen, MaxDepth, PrefixCheck, AllComments

DefaultSegs == {"a", "bb"}
DefaultSegLen == [a |-> 1, bb |-> 2]
Dirs == UNION { [1..n -> Segs] : n \in 0..MaxDepth }           \* a directory = its segments; <<>> is "/"
Files == { Append(d, "f.go") : d \in Dirs }
IsPrefix(p, s) == Len(p) <= Len(s) /\ SubSeq(s, 1, Len(p)) = p
Occurs(p, s, i) == i + Len(p) - 1 <= Len(s) /\ SubSeq(s, i, i + Len(p) - 1) = p
FirstOcc(p, s) == IF \E i \in 1..Len(s) : Occurs(p, s, i)
                  THEN CHOOSE i \in 1..Len(s) : Occurs(p, s, i) /\ \A j \in 1..(i-1) : ~Occurs(p, s, j) ELSE 0
SegChars(x) == IF x = "f.go" THEN 4 ELSE SegLen[x]
CharLen(s) == LET RECURSIVE Sum(_) Sum(k) == IF k = 0 THEN 0 ELSE Sum(k-1) + 1 + SegChars(s[k]) IN Sum(Len(s))

\* printed forms: [kind |-> "abs"|"rel"|"gopath"|"goroot"|"garbage", rest |-> Seq, len |-> Nat]
Abs(loc) == [kind |-> "abs", rest |-> loc, len |-> CharLen(loc)]
Rel(wd, loc) ==
  IF wd = <<>> THEN [kind |-> "rel", rest |-> loc, len |-> CharLen(loc) + 1]          \* "/" -> "./"
  ELSE IF IsPrefix(wd, loc) THEN [kind |-> "rel", rest |-> SubSeq(loc, Len(wd)+1, Len(loc)), len |-> CharLen(loc) - CharLen(wd) + 1]
  ELSE IF PrefixCheck THEN Abs(loc)
  ELSE LET i == FirstOcc(wd, loc) IN
       IF i = 0 THEN Abs(loc)
       ELSE [kind |-> "garbage", rest |-> SubSeq(loc, 1, i-1) \o <<"./">> \o SubSeq(loc, i+Len(wd), Len(loc)), len |-> CharLen(loc) - CharLen(wd) + 1]
Root(kind, root, loc) == [kind |-> kind, rest |-> SubSeq(loc, Len(root)+1, Len(loc)), len |-> CharLen(loc) - CharLen(root) + 7]  \* the root and its trailing slash (CharLen(root) + 1 characters) become "$GOPATH/" (8)
ImplShorten(wd, gopath, goroot, loc) ==
  LET rel == Rel(wd, loc)
      abs == IF IsPrefix(gopath, loc) THEN Root("gopath", gopath, loc)
             ELSE IF IsPrefix(goroot, loc) THEN Root("goroot", goroot, loc) ELSE Abs(loc)
  IN IF rel.len < abs.len THEN rel ELSE abs
Resolve(wd, gopath, goroot, pr) ==
  CASE pr.kind = "abs" -> pr.rest
    [] pr.kind = "rel" -> wd \o pr.rest
    [] pr.kind = "gopath" -> gopath \o pr.rest
    [] pr.kind = "goroot" -> goroot \o pr.rest
    [] OTHER -> <<"<unresolvable>">>

\* ---- filters ---------------------------------------------------------------------
\* header classes of a file: where the "Code generated ... DO NOT EDIT." line is
Headers == {"first", "afterLicence", "none", "noDot", "midLine", "afterPackage", "afterDecl", "block"}
\* the convention (go.dev/s/generatedcode): a line comment, the whole line, anywhere before the package clause
HeaderDoc(h) == CASE h \in {"first", "afterLicence"} -> {TRUE}
                  [] h \in {"none", "noDot", "afterPackage", "afterDecl"} -> {FALSE}   \* after the clause: not a header
                  [] OTHER -> {TRUE, FALSE}                         \* unconstrained: the statement does not fix these
\* the code: regexp "Code generated .* DO NOT EDIT." (unanchored) on the text of the FIRST comment group only
\* (AllComments = TRUE: on every comment group before the package clause)
HeaderImpl(h) == CASE h = "first" -> TRUE
                   [] h = "afterLicence" -> AllComments
                   [] h \in {"none", "noDot"} -> FALSE
                   [] h = "midLine" -> TRUE
                   [] h = "afterPackage" -> ~AllComments         \* first group of the file even though it follows the clause
                   [] h = "afterDecl" -> FALSE                   \* a later declaration's comment quoting the marker
                   [] h = "block" -> TRUE
SkipDoc(h, isTest, checkTests, checkGen) == { (~checkTests /\ isTest) \/ (~checkGen /\ g) : g \in HeaderDoc(h) }
SkipImpl(h, isTest, checkTests, checkGen) == (~checkTests /\ isTest) \/ (~checkGen /\ HeaderImpl(h))

VARIABLES wd, gopath, goroot, loc, printed,      \* a location case and the model's printed form
          hdr, isTest, checkTests, checkGen       \* a filter case
vars == <<wd, gopath, goroot, loc, printed, hdr, isTest, checkTests, checkGen>>
\* location cases and filter cases are swept separately (the other half is pinned to one value)
InitLoc == /\ wd \in Dirs /\ gopath \in Dirs /\ goroot \in Dirs /\ loc \in Files
           /\ printed = ImplShorten(wd, gopath, goroot, loc)
           /\ hdr = "none" /\ isTest = FALSE /\ checkTests = TRUE /\ checkGen = FALSE
InitFilter == /\ wd = <<>> /\ gopath = <<>> /\ goroot = <<>> /\ loc = <<"f.go">> /\ printed = Abs(loc)
              /\ hdr \in Headers /\ isTest \in BOOLEAN /\ checkTests \in BOOLEAN /\ checkGen \in BOOLEAN
Next == UNCHANGED vars
SpecLoc == InitLoc /\ [][Next]_vars
SpecFilter == InitFilter /\ [][Next]_vars
RoundTrip == Resolve(wd, gopath, goroot, printed) = loc
FilterConforms == SkipImpl(hdr, isTest, checkTests, checkGen) \in SkipDoc(hdr, isTest, checkTests, checkGen)
=============================================================================
