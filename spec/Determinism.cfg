SPECIFICATION Spec
CONSTANTS
  Keys = {"k1", "k2", "k3"}
  Discipline = "traversal"
INVARIANTS Deterministic
