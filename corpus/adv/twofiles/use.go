package twofiles

import (
	"fmt"
	"regexp"
)

var (
	reDup   = regexp.MustCompile(dupCharPat)
	reFlag  = regexp.MustCompile(badFlagPat)
	reRange = regexp.MustCompile(rangePat)
	reGood  = regexp.MustCompile(goodPat)
	reAlt   = regexp.MustCompile(longAltPat)
)

// methods of a type that is declared in the other file
func (s Shape) Area() int { return s.w * s.h }

func (s *Shape) Scale(k int) { s.w, s.h = s.w*k, s.h*k }

func report(n int, name string) {
	defer fmt.Printf("%d items in %s\n", n, name)
	return
}

func reportMod(n int) int {
	defer fmt.Println(n % 10)
	return n
}

func reportWords(n int, name string) {
	defer fmt.Printf(formatWords, n, name)
	return
}
