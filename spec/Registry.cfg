SPECIFICATION Spec
CONSTANTS
  Handwritten = {"h1", "h2"}
  Groups = {"g1", "g2"}
  AnalyzerInitsEmbedded = TRUE
INVARIANTS SameOffer OneCheckerPerGroup
