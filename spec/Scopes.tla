-------------------------------- MODULE Scopes --------------------------------
(***************************************************************************)
(* Go name resolution for the "subject" names that API-specific checkers   *)
(* look for (builtins: append new len copy; members of std packages        *)
(* reached through the package name: regexp.MustCompile, sort.Slice, ...), *)
(* and the recognition styles found in the code.                            *)
(*                                                                          *)
(* A case = what is declared under the subject's SPELLING at each level of  *)
(* the scope chain (universe < package block < file block (imports) <       *)
(* function parameters < local block) and the shape of the call site.       *)
(* Every combination is an initial state; WellFormed says whether the       *)
(* rendered program type-checks (cross-checked against go/types by the      *)
(* harness), Resolved which declaration the callee identifier denotes,      *)
(* RealAPI whether the flagged call is the real builtin / std function.     *)
(*                                                                          *)
(* OnlyReal: a diagnostic about the subject is issued only if RealAPI.      *)
(* Recognition styles: bySpelling (qualifiedName / ident name compare),     *)
(* byPkgObject (the package part is resolved through go/types - gogrep      *)
(* package symbols, flagName - but builtins named in rule patterns are      *)
(* matched by spelling), byObject (the reference: full resolution).         *)
(***************************************************************************)
EXTENDS Naturals, Sequences, FiniteSets, TLC
SubjKind == {"builtin", "stdpkg"}
PkgDecl   == {"none", "func", "var"}               \* package block: a function / a variable (func-typed for a builtin name, with like-named methods for a package name)
FileDecl  == {"none", "realImport", "fakeImport", "fakeNamed", "fakeNamedAs", "dotReal", "dotFake"}
             \* file block: import of the real std package / of another package under that name (fakeImport: renamed import;
             \* fakeNamed: a package whose declared NAME is the std one's, e.g. example.com/app/internal/log; fakeNamedAs: that
             \* package under another local name); dot-import of the real package / of a same-named other package (the member is
             \* then called unqualified)
ParamDecl == {"none", "param"}
LocalDecl == {"none", "local"}
Shapes    == {"normal", "zeroArgs"}
VARIABLES kind, variadic, pkgD, fileD, paramD, localD, shape,     \* the case (variadic: the real API accepts a call without arguments)
          wellFormed, resolved, realAPI                  \* predictions (exported)
vars == <<kind, variadic, pkgD, fileD, paramD, localD, shape, wellFormed, resolved, realAPI>>

\* innermost declaration wins
ResolvedP(p, f, pa, l) == IF l # "none" THEN "local"
                          ELSE IF pa # "none" THEN "param"
                          ELSE IF f # "none" THEN f
                          ELSE IF p # "none" THEN "pkg"
                          ELSE "universe"
RealAPIP(k, p, f, pa, l) == (k = "builtin" /\ ResolvedP(p, f, pa, l) = "universe") \/ (k = "stdpkg" /\ ResolvedP(p, f, pa, l) \in {"realImport", "dotReal"})

WellFormedP(k, va, p, f, pa, l, sh) ==
  /\ (sh = "zeroArgs" /\ ~va => ~RealAPIP(k, p, f, pa, l))   \* a real builtin / std function that needs arguments
  /\ (k = "builtin" => f = "none")                    \* a builtin is not reached through a package name
  /\ ~(p # "none" /\ f # "none")                       \* "X redeclared in this block / already declared through import"
  /\ (k = "stdpkg" => (p # "none" \/ f # "none" \/ pa # "none" \/ l # "none"))   \* the name must resolve to something
  /\ (k = "stdpkg" /\ ResolvedP(p, f, pa, l) = "pkg" => p # "func")   \* a selector call needs a value with methods or a package

Init == /\ kind \in SubjKind /\ variadic \in BOOLEAN /\ pkgD \in PkgDecl /\ fileD \in FileDecl /\ paramD \in ParamDecl /\ localD \in LocalDecl /\ shape \in Shapes
        /\ (kind = "builtin" => fileD = "none")            \* a builtin is not reached through a package name: nothing to render
        /\ (fileD \in {"dotReal", "dotFake", "fakeNamedAs"} => (kind = "stdpkg" /\ pkgD = "none" /\ paramD = "none" /\ localD = "none"))   \* dot-import cases are swept on their own
        /\ wellFormed = WellFormedP(kind, variadic, pkgD, fileD, paramD, localD, shape)
        /\ resolved = ResolvedP(pkgD, fileD, paramD, localD)
        /\ realAPI = RealAPIP(kind, pkgD, fileD, paramD, localD)
Next == UNCHANGED vars
Spec == Init /\ [][Next]_vars

Recognises(style) == CASE style = "bySpelling" -> TRUE
                       [] style = "byPkgObject" -> (kind = "stdpkg" /\ resolved \in {"realImport", "dotReal"}) \/ (kind = "builtin")
                       [] style = "byPkgName" -> (kind = "stdpkg" /\ resolved \in {"realImport", "dotReal", "fakeNamed", "fakeNamedAs", "dotFake"}) \/ (kind = "builtin" /\ resolved = "universe")
                       [] style = "byObject" -> realAPI
OnlyRealByObject == (wellFormed /\ Recognises("byObject")) => realAPI
OnlyRealBySpelling == (wellFormed /\ Recognises("bySpelling")) => realAPI
OnlyRealByPkgObject == (wellFormed /\ Recognises("byPkgObject")) => realAPI
OnlyRealByPkgName == (wellFormed /\ Recognises("byPkgName")) => realAPI      \* the imported package's declared name instead of its path
==============================================================================
