"""C06 - checker selection follows the documented enable/disable/tag algebra.

Spec: Selection.tla (DocSel vs ImplCLI / ImplAn / ImplDocsMark). TLC checks Impl = Doc for every tag profile and every
configuration with lists up to MaxList (861 888 initial states for MaxList = 2), refutes the what-if order swap, and
exports every (profile, configuration) of the REAL registry's profiles with the predictions. The three real filter
routines (cmd/go-critic, cmd/gocritic through verif in-package drivers running the real pipeline up to initCheckers;
checkers/analyzer through VerifFilter) are evaluated on every exported case; empty selections, construction of
unselected checkers (inert parameters) and the documentation marks are checked as well.
"""
import json
import os
import re
import subprocess

import vlib

TAGS4 = {"experimental", "opinionated", "performance", "security"}


def run_driver(ctx, pkg, req, tag):
    """Run the verif in-package driver test of a command package on a request."""
    inp = ctx.path("drv", "%s_%s_in.json" % (pkg.replace("/", "_"), tag))
    outp = ctx.path("drv", "%s_%s_out.json" % (pkg.replace("/", "_"), tag))
    json.dump(req, open(inp, "w"))
    r = subprocess.run(["go", "test", "-tags", "verif", "-count=1", "-run", "^TestVerifDriver$", "./" + pkg],
                       cwd=vlib.REPO, env=vlib.goenv({"VERIF_DRIVER_IN": inp, "VERIF_DRIVER_OUT": outp}),
                       capture_output=True, text=True, timeout=3000)
    if r.returncode != 0 or not os.path.exists(outp):
        raise vlib.Infra("in-package driver of %s failed:\n%s\n%s" % (pkg, r.stdout[-3000:], r.stderr[-3000:]))
    return json.load(open(outp))


def key_str(k, self_name, other_name):
    if k["kind"] == "name":
        return {"self": self_name, "other": other_name, "unknown": "noSuchChecker", "": ""}.get(k["v"], k["v"])
    return "#" + {"unknown": "noSuchTag", "self": self_name}.get(k["v"], k["v"])


def is_default(lst):
    return len(lst) == 1 and lst[0].get("kind") == "default"


def doc_sel(tags, name, a, e, d, self_name=None):
    """Python copy of DocSel for whole-registry questions (emptiness); keys already rendered to strings."""
    def hit(lst):
        for k in lst:
            if k.startswith("#"):
                if k[1:] in tags:
                    return True
            elif k == name:
                return True
        return False
    en = a or (not (set(tags) & TAGS4) if e is None else hit(e))
    dis = False if d is None else hit(d)
    return en and not dis


def run(ctx):
    thorough = ctx.tier == "thorough"
    regp = ctx.path("registry.json")
    ctx.run_vh(["registry", "-out", regp])
    reg = json.load(open(regp))
    checkers = reg["checkers"]
    an_names = set(reg["analyzer_snapshot"])
    profiles = {}
    for c in checkers:
        profiles.setdefault(tuple(sorted(c["tags"])), []).append(c["name"])
    unknown_tags = {t for p in profiles for t in p} - {"diagnostic", "style", "performance", "experimental", "opinionated", "security"}
    if unknown_tags:
        ctx.fail("UnknownTag", "registered checkers carry tags outside the documented set: %s" % sorted(unknown_tags), {"tags": sorted(unknown_tags)})

    # 1. the algebra for ALL profiles
    maxlist = 2 if thorough else 1
    cfg_all = "SPECIFICATION Spec\nCONSTANTS\n  MaxList = %d\n  Profiles <- AllProfiles\nINVARIANTS CLIConforms AnConformsNoSecurity DocsConform\n" % maxlist
    r = ctx.tlc("Selection", cfg_text=cfg_all, workers=8, timeout=1200, expect="ok")
    design = {"all_profiles": {"distinct": r.distinct, "MaxList": maxlist}}
    r = ctx.tlc("Selection", cfg_text=cfg_all.replace("INVARIANTS CLIConforms AnConformsNoSecurity DocsConform", "INVARIANTS SwappedConforms"),
                workers=8, timeout=600, expect="violation")
    design["whatif_enable_wins"] = {"refuted": r.violated}
    r = ctx.tlc("Selection", cfg_text=cfg_all.replace("INVARIANTS CLIConforms AnConformsNoSecurity DocsConform", "INVARIANTS AnConforms"),
                workers=8, timeout=600, expect="violation")
    design["analyzer_security_default"] = {"refuted": r.violated, "note": "analyzer default enables #security; harmless iff no registered checker carries it"}

    # 2. real profiles: invariants incl. the unconditional analyzer one, and case export
    pset = "{" + ", ".join("{" + ", ".join('"%s"' % t for t in p) + "}" for p in sorted(profiles)) + "}"
    dump = ctx.spec_path("sel_real.dump")
    cfg_real = "SPECIFICATION Spec\nCONSTANTS\n  MaxList = %d\n  Profiles = %s\nINVARIANTS CLIConforms AnConforms DocsConform\n" % (maxlist, pset)
    r = ctx.tlc("Selection", cfg_text=cfg_real, workers=8, timeout=1800, dump="sel_real", expect="ok")
    design["real_profiles"] = {"distinct": r.distinct, "profiles": len(profiles)}
    states = vlib.parse_dump(dump)
    if len(states) != r.distinct:
        raise vlib.Infra("dump has %d states, TLC reported %d" % (len(states), r.distinct))
    budget = 120000 if thorough else 6000
    if len(states) > budget:
        ctx.rng.shuffle(states)
        states = states[:budget]

    names = [c["name"] for c in checkers]
    tags_of = {c["name"]: c["tags"] for c in checkers}
    cases = []
    for i, s in enumerate(states):
        prof = tuple(sorted(s["p"]))
        reps = profiles[prof]
        self_name = reps[(i + ctx.seed) % len(reps)]
        other = names[(names.index(self_name) + 1) % len(names)]
        e = None if is_default(s["e"]) else [key_str(k, self_name, other) for k in s["e"]]
        d = None if is_default(s["d"]) else [key_str(k, self_name, other) for k in s["d"]]
        cases.append({"id": str(i), "self": self_name, "a": s["a"], "e": e, "d": d, "doc": s["doc"], "cli": s["cli"], "an": s["an"], "transl": s["transl"]})

    def cli_args(c):
        args = []
        if c["a"]:
            args.append("-enableAll")
        if c["e"] is not None:
            args.append("-enable=" + ",".join(c["e"]))
        if c["d"] is not None:
            args.append("-disable=" + ",".join(c["d"]))
        return args

    embedded = [{"name": c["name"], "tags": c["tags"]} for c in checkers if c["embedded"]]
    req = {"op": "selection", "registry": embedded, "cases": [{"id": c["id"], "args": cli_args(c)} for c in cases]}
    # poisoned parameter of an unselected checker must be inert; of a selected one it must fail initialisation
    req["cases"].append({"id": "poison-unselected", "args": ["-@ruleguard.failOn=bogus", "-@ruleguard.rules=/nonexistent/x.go", "-enable=dupCase"]})
    req["cases"].append({"id": "poison-selected", "args": ["-@ruleguard.failOn=bogus", "-@ruleguard.rules=/nonexistent/x.go", "-enable=ruleguard"]})
    evaluated = 0
    drift = 0
    empty_checked = 0
    for fe, pkg in (("cli", "cmd/go-critic"), ("twin", "cmd/gocritic")):
        obs = {o["id"]: o for o in run_driver(ctx, pkg, req, "sel")}
        for c in cases:
            o = obs[c["id"]]
            sel = set(o.get("selected") or [])
            got = c["self"] in sel
            evaluated += 1
            if got != c["doc"]:
                ctx.fail("SelMismatch %s" % fe, "%s: `check %s`: checker %s (tags %s) selected=%s, documented algebra says %s"
                         % (fe, " ".join(cli_args(c)), c["self"], tags_of[c["self"]], got, c["doc"]), {"frontend": fe, "case": c, "obs": o})
            elif got != c["cli"]:
                drift += 1
            if sorted(o.get("constructed") or []) != sorted(sel):
                ctx.fail("ConstructedUnselected %s" % fe, "%s: `check %s`: constructed %s but selected %s"
                         % (fe, " ".join(cli_args(c)), sorted(set(o.get("constructed") or []) ^ sel)[:5], len(sel)), {"case": c, "obs": o})
            # whole-registry emptiness (only decidable here when no name key refers to the observed checker)
            want_empty = not any(doc_sel(tags_of[n], n, c["a"], c["e"], c["d"]) for n in names)
            if want_empty:
                empty_checked += 1
                if o.get("err") != "empty checkers set selected":
                    ctx.fail("EmptyNotError %s" % fe, "%s: `check %s` selects nothing but initialisation did not fail with the empty-set error (err=%r, selected=%d)"
                             % (fe, " ".join(cli_args(c)), o.get("err"), len(sel)), {"case": c, "obs": o})
            elif o.get("err"):
                ctx.fail("SpuriousInitError %s" % fe, "%s: `check %s` failed: %s" % (fe, " ".join(cli_args(c)), o.get("err")), {"case": c, "obs": o})
        o = obs["poison-unselected"]
        if o.get("err") or "ruleguard" in (o.get("constructed") or []):
            ctx.fail("ParamsNotInert %s" % fe, "%s: parameters of the unselected ruleguard checker took effect: %s" % (fe, o), {"obs": o})
        o = obs["poison-selected"]
        if not o.get("err"):
            raise vlib.Infra("poison control: selected ruleguard with bogus failOn did not fail initialisation")

    # analyzer
    an_cases = []
    for c in cases:
        if not c["transl"] or c["self"] not in an_names:
            continue
        fl = {}
        if c["a"]:
            fl["enable-all"] = "true"
        if c["e"] is not None:
            fl["enable"] = ",".join(c["e"])
        if c["d"] is not None:
            fl["disable"] = ",".join(c["d"])
        an_cases.append({"id": c["id"], "flags": fl})
    inp, outp = ctx.path("an_in.json"), ctx.path("an_out.json")
    json.dump(an_cases, open(inp, "w"))
    ctx.run_vh(["selection-analyzer", "-in", inp, "-out", outp])
    obs = {o["id"]: o for o in json.load(open(outp))}
    bycase = {c["id"]: c for c in cases}
    for ac in an_cases:
        c = bycase[ac["id"]]
        got = c["self"] in set(obs[ac["id"]].get("selected") or [])
        evaluated += 1
        if got != c["doc"]:
            ctx.fail("SelMismatch analyzer", "analyzer flags %s: checker %s (tags %s) selected=%s, documented algebra says %s"
                     % (ac["flags"], c["self"], tags_of[c["self"]], got, c["doc"]), {"case": c, "obs": obs[ac["id"]]})
        elif got != c["an"]:
            drift += 1

    # 3. documentation marks
    docs = docs_marks(ctx, checkers)

    st, tr = vlib.tlc_states_total(ctx)
    cov = {
        "states": st, "transitions": tr,
        "traces_validated_against_impl": evaluated,
        "cases_exported_by_tlc": len(cases), "evaluations_on_real_filters": evaluated, "empty_selection_cases": empty_checked,
        "drift_impl_model_vs_code": drift, "design": design, "docs": docs,
        "analyzer_snapshot_size": len(an_names), "registry_size": len(names),
        "exhaustive": len(cases) == design["real_profiles"]["distinct"],
        "samples": [{"args": cli_args(c), "observed_checker": c["self"], "doc": c["doc"]} for c in cases[:3]],
    }
    return ctx.finish("model_checking", cov, [
        "cases name at most one observed checker ('self'), one other registered name, unknown names/tags and the empty entry",
        "embedded (rule-based) checkers are registered in the in-package drivers as stand-ins with their real names and tags",
        "analyzer compared only under Selection!Translatable and only for checkers present in its registry snapshot (C08 covers the offer)",
    ])


def docs_marks(ctx, checkers):
    """docs/overview.md check-marks and the README tag table vs DocDefault."""
    txt = open(os.path.join(vlib.REPO, "docs", "overview.md")).read()
    marks = dict((m.group(2), m.group(1) == "heavy_check_mark") for m in re.finditer(r"\|:(heavy_check_mark|white_check_mark):\[(\w+)\]", txt))
    n = 0
    for c in checkers:
        want = not (set(c["tags"]) & TAGS4)
        n += 1
        if c["name"] not in marks:
            ctx.fail("DocsMissing", "docs/overview.md does not list registered checker %s" % c["name"], {"checker": c["name"]})
        elif marks[c["name"]] != want:
            ctx.fail("DocsMark", "docs/overview.md marks %s as %s by default, the selection rule says %s"
                     % (c["name"], "enabled" if marks[c["name"]] else "disabled", "enabled" if want else "disabled"), {"checker": c})
    extra = set(marks) - {c["name"] for c in checkers}
    if extra:
        ctx.fail("DocsExtra", "docs/overview.md lists unregistered checkers %s" % sorted(extra), {"extra": sorted(extra)})
    return {"marks_checked": n}
