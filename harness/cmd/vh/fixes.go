package main

import (
	"bytes"
	"encoding/json"
	"flag"
	"fmt"
	"go/ast"
	"go/parser"
	"go/printer"
	"go/token"
	"go/types"
	"os"
	"path/filepath"
	"regexp"
	"sort"
	"strings"

	"github.com/go-critic/go-critic/linter"
	"golang.org/x/tools/go/packages"
	"verifharness/hx"
)

func init() { commands["fixes"] = fixesCmd }

// quoted replacement code in messages: (regexp, group of the original, group of the replacement); original 0 = the flagged node
var quotedForms = []struct {
	re       *regexp.Regexp
	orig, to int
}{
	{regexp.MustCompile("(?s)^replace `(.*)` with `(.*)`$"), 1, 2},
	{regexp.MustCompile("(?s)^can simplify `(.*)` to `(.*)`$"), 1, 2},
	{regexp.MustCompile("(?s)^could simplify (.*) to (.*)$"), 1, 2},
	{regexp.MustCompile("(?s)^consider to change order in expression to (.*)$"), 0, 1},
	{regexp.MustCompile("(?s)^can re-write as `(.*)`$"), 0, 1},
	{regexp.MustCompile("(?s)^can rewrite as `(.*)`$"), 0, 1},
	{regexp.MustCompile("(?s)^suggestion: (.*)$"), 0, 1},
	{regexp.MustCompile("(?s)^use (.*) instead of (.*)$"), 2, 1},
	{regexp.MustCompile("(?s)^consider replacing (.*) with (.*)$"), 1, 2},
	{regexp.MustCompile(`(?s)^(len\(.*\) \S+ \d+) can be (len\(.*)$`), 1, 2},
}

type suggestion struct {
	Checker  string `json:"checker"`
	Text     string `json:"text"`
	File     string `json:"file"`
	Line     int    `json:"line"`
	Col      int    `json:"col"`
	Kind     string `json:"kind"` // fix | quoted
	From     int    `json:"from"`
	To       int    `json:"to"`
	Repl     string `json:"repl"`
	Flagged  string `json:"flagged"`  // source[from:to]
	Category string `json:"category"` // expr | stmt | stmts | type | other
	Located  bool   `json:"located"`  // the range to replace could be determined
	Func     string `json:"func"`
	FuncSrc  string `json:"funcSrc,omitempty"`
	FixedSrc string `json:"fixedSrc,omitempty"` // the enclosing function with the edit applied

	ReplParses   bool   `json:"replParses"`
	ParseErr     string `json:"parseErr,omitempty"`
	TypeOK       bool   `json:"typeOK"`
	TypeErr      string `json:"typeErr,omitempty"`
	AddedImports int    `json:"addedImports"`
	UnusedImport bool   `json:"unusedImport"`
	TypeKept     bool   `json:"typeKept"`
	TypeBefore   string `json:"typeBefore,omitempty"`
	TypeAfter    string `json:"typeAfter,omitempty"`
	PosInRange   bool   `json:"posInRange"` // the reported position lies inside the replaced range
	SameAfter    bool   `json:"sameAfter"`  // re-analysis reports the same text at the same place (before the nested-construct allowance)
	StillThere   bool   `json:"stillThere"` // re-analysis reports the same diagnostic at the same place
	MarkersLost  int    `json:"markersLost"`
}

var stdImportFor = map[string]string{"bytes": "bytes", "errors": "errors", "filepath": "path/filepath", "utf8": "unicode/utf8", "http": "net/http",
	"strings": "strings", "fmt": "fmt", "io": "io", "sort": "sort", "time": "time", "unicode": "unicode", "slices": "slices", "maps": "maps"}

// fixesCmd collects every diagnostic that carries a quick fix or quotes replacement code, determines the byte range it replaces,
// and evaluates on the real toolchain what applying it does (C09); the original and the fixed enclosing function are returned
// for differential execution (C10).
func fixesCmd(args []string) {
	fs := flag.NewFlagSet("fixes", flag.ExitOnError)
	dir := fs.String("dir", "", "package directory or module (dir:pattern accepted) or 'examples'")
	only := fs.String("checkers", "", "comma list (default all)")
	out := fs.String("out", "", "output JSON")
	work := fs.String("work", "", "scratch directory for fixed variants")
	funcs := fs.Bool("funcs", false, "include the source of the enclosing function before and after")
	goVer := fs.String("go", "", "target Go version")
	fs.Parse(args)
	hx.Init()
	fset := token.NewFileSet()
	var pkgs []*packages.Package
	var err error
	// std packages that a replacement may newly import are loaded in the same universe as the analysed packages
	extraStd := []string{"bytes", "errors", "path/filepath", "unicode/utf8", "net/http", "strings", "fmt", "io", "sort", "time", "unicode", "slices", "maps"}
	isExtra := map[string]bool{}
	for _, e := range extraStd {
		isExtra[e] = true
	}
	if *dir == "examples" {
		var pats []string
		for _, n := range hx.ExampleDirs() {
			pats = append(pats, "./testdata/"+n)
		}
		pkgs, err = hx.Load(fset, filepath.Join(hx.Repo(), "checkers"), false, append(pats, extraStd...)...)
	} else {
		pkgs, err = hx.Load(fset, *dir, false, append([]string{"./..."}, extraStd...)...)
	}
	hx.Must(err)
	want := map[string]bool{}
	for _, c := range strings.Split(*only, ",") {
		if c != "" {
			want[c] = true
		}
	}
	deps := map[string]*types.Package{}
	var visit func(p *packages.Package)
	visit = func(p *packages.Package) {
		if p.Types != nil {
			deps[p.PkgPath] = p.Types
		}
		for _, q := range p.Imports {
			if _, ok := deps[q.PkgPath]; !ok {
				visit(q)
			}
		}
	}
	for _, p := range pkgs {
		visit(p)
	}
	infos := hx.Infos()
	// discovery with one long-lived set (history independence is C03's business); re-analysis uses fresh instances
	lctx := linter.NewContext(fset, hx.Sizes)
	if *goVer != "" {
		lctx.SetGoVersion(*goVer)
	}
	var lset []*linter.Checker
	for _, in := range infos {
		c, err := linter.NewChecker(lctx, in)
		hx.Must(err)
		lset = append(lset, c)
	}
	var res []suggestion
	nWarn := 0
	for _, p := range pkgs {
		if p.TypesInfo == nil || len(p.Errors) != 0 || isExtra[p.PkgPath] {
			continue
		}
		lctx.SetPackageInfo(p.TypesInfo, p.Types)
		for _, f := range p.Syntax {
			phys := hx.FileName(fset, f.Pos())
			src, err := os.ReadFile(phys)
			if err != nil {
				continue
			}
			tf := fset.File(f.Pos())
			lctx.SetFileInfo(filepath.Base(phys), f)
			for ci, in := range infos {
				if len(want) > 0 && !want[in.Name] {
					continue
				}
				var ws []linter.Warning
				func() {
					defer func() { recover() }()
					ws = append(ws, lset[ci].Check(f)...)
				}()
				total := len(ws)
				for _, w := range ws {
					nWarn++
					s, ok := locate(fset, tf, f, src, in.Name, w)
					if !ok {
						continue
					}
					evaluate(&s, fset, p, f, src, deps, in, *work, len(res), *funcs, *goVer, total)
					res = append(res, s)
				}
			}
		}
	}
	b, _ := json.Marshal(map[string]interface{}{"suggestions": res, "warnings": nWarn})
	hx.Must(os.WriteFile(*out, b, 0o644))
}

// locate determines the replaced byte range and the replacement of a diagnostic, if it proposes code.
func locate(fset *token.FileSet, tf *token.File, f *ast.File, src []byte, checker string, w linter.Warning) (suggestion, bool) {
	pos := fset.PositionFor(w.Pos, false)
	s := suggestion{Checker: checker, Text: w.Text, File: tf.Name(), Line: pos.Line, Col: pos.Column}
	if w.HasQuickFix() {
		s.Kind = "fix"
		s.From, s.To = tf.Offset(w.Suggestion.From), tf.Offset(w.Suggestion.To)
		s.Repl = string(w.Suggestion.Replacement)
		s.Located = s.From <= s.To && s.To <= len(src)
		if s.Located {
			s.Flagged = string(src[s.From:s.To])
		}
		if off := tf.Offset(w.Pos); off >= s.From && off <= s.To {
			s.PosInRange = true
		}
		return s, true
	}
	for _, q := range quotedForms {
		m := q.re.FindStringSubmatch(w.Text)
		if m == nil {
			continue
		}
		s.Kind = "quoted"
		s.Repl = m[q.to]
		off := tf.Offset(w.Pos)
		// the node that starts at the warning position and prints like the quoted original (or, without a quoted original, the largest node starting there)
		var best ast.Node
		ast.Inspect(f, func(n ast.Node) bool {
			if n == nil || n.Pos() != w.Pos {
				return true
			}
			switch n.(type) {
			case ast.Expr, ast.Stmt:
			default:
				return true
			}
			txt := string(src[tf.Offset(n.Pos()):tf.Offset(n.End())])
			if q.orig != 0 {
				if squash(txt) == squash(m[q.orig]) {
					best = n
					return false
				}
				// the checkers quote the node as go/printer prints it (redundant nested parentheses are dropped)
				var pb bytes.Buffer
				if printer.Fprint(&pb, fset, n) == nil && squash(pb.String()) == squash(m[q.orig]) && best == nil {
					best = n
				}
				return true
			}
			if best == nil {
				best = n
			}
			return true
		})
		if best == nil && q.orig != 0 {
			// the quoted original may be a sub-expression after the warning position on the same line
			if i := bytes.Index(src[off:], []byte(m[q.orig])); i >= 0 && i < 200 && !bytes.Contains(src[off:off+i], []byte("\n")) {
				s.From, s.To, s.Located = off+i, off+i+len(m[q.orig]), true
				s.Flagged = m[q.orig]
				return s, true
			}
		}
		if best != nil {
			s.From, s.To, s.Located = tf.Offset(best.Pos()), tf.Offset(best.End()), true
			s.Flagged = string(src[s.From:s.To])
		}
		return s, true
	}
	return s, false
}

func squash(s string) string { return strings.Join(strings.Fields(s), "") }

func evaluate(s *suggestion, fset *token.FileSet, p *packages.Package, f *ast.File, src []byte, deps map[string]*types.Package,
	in *linter.CheckerInfo, work string, n int, withFuncs bool, goVer string, totalBefore int) {
	if !s.Located {
		return
	}
	tf := fset.File(f.Pos())
	// category of what is replaced
	var node ast.Node
	ast.Inspect(f, func(x ast.Node) bool {
		if x == nil || node != nil {
			return false
		}
		if tf.Offset(x.Pos()) == s.From && tf.Offset(x.End()) == s.To {
			switch x.(type) {
			case ast.Expr, ast.Stmt:
				node = x
				return false
			}
		}
		return true
	})
	s.Category = "other"
	var typeBefore types.Type
	switch x := node.(type) {
	case ast.Expr:
		s.Category = "expr"
		if tv, ok := p.TypesInfo.Types[x]; ok {
			if tv.IsType() {
				s.Category = "type"
			}
			typeBefore = tv.Type
		}
	case ast.Stmt:
		s.Category = "stmt"
	case nil:
		// several statements?
		if strings.Contains(s.Flagged, "\n") {
			s.Category = "stmts"
		}
	}
	switch s.Category {
	case "expr", "type":
		_, err := parser.ParseExpr(s.Repl)
		s.ReplParses = err == nil
		if err != nil {
			s.ParseErr = err.Error()
		}
	default:
		_, err := parser.ParseFile(token.NewFileSet(), "", "package p\nfunc _() {\n"+s.Repl+"\n}", 0)
		s.ReplParses = err == nil
		if err != nil {
			if _, err2 := parser.ParseExpr(s.Repl); err2 == nil {
				s.ReplParses = true
			} else {
				s.ParseErr = err.Error()
			}
		}
	}
	// the enclosing function
	var fn *ast.FuncDecl
	for _, d := range f.Decls {
		if fd, ok := d.(*ast.FuncDecl); ok && tf.Offset(fd.Pos()) <= s.From && s.To <= tf.Offset(fd.End()) {
			fn = fd
		}
	}
	fixed := append(append(append([]byte{}, src[:s.From]...), []byte(s.Repl)...), src[s.To:]...)
	if fn != nil {
		s.Func = fn.Name.Name
		if withFuncs {
			a, b := tf.Offset(fn.Pos()), tf.Offset(fn.End())
			s.FuncSrc = string(src[a:b])
			s.FixedSrc = string(src[a:s.From]) + s.Repl + string(src[s.To:b])
		}
	}
	s.MarkersLost = bytes.Count(src, []byte("marker(")) - bytes.Count(fixed, []byte("marker("))
	if !s.ReplParses {
		return
	}
	// type-check the package with the fixed file (adding std imports the replacement itself names)
	vdir := filepath.Join(work, fmt.Sprintf("v%d", n))
	hx.Must(os.MkdirAll(vdir, 0o755))
	defer os.RemoveAll(vdir)
	check := func(data []byte) (nerr int, first string, unused bool, tinfo *types.Info, tpkg *types.Package, target *ast.File, vfset *token.FileSet) {
		vfset = token.NewFileSet()
		var files []*ast.File
		for _, gf := range p.GoFiles {
			d, _ := os.ReadFile(gf)
			if gf == tf.Name() {
				d = data
			}
			path := filepath.Join(vdir, filepath.Base(gf))
			hx.Must(os.WriteFile(path, d, 0o644))
			af, err := parser.ParseFile(vfset, path, nil, parser.ParseComments)
			if err != nil {
				return 1, "parse: " + err.Error(), false, nil, nil, nil, vfset
			}
			files = append(files, af)
			if gf == tf.Name() {
				target = af
			}
		}
		tinfo = &types.Info{Types: map[ast.Expr]types.TypeAndValue{}, Defs: map[*ast.Ident]types.Object{}, Uses: map[*ast.Ident]types.Object{},
			Implicits: map[ast.Node]types.Object{}, Selections: map[*ast.SelectorExpr]*types.Selection{}, Scopes: map[ast.Node]*types.Scope{},
			Instances: map[*ast.Ident]types.Instance{}}
		conf := types.Config{Importer: mapImporter(deps), Sizes: hx.Sizes, Error: func(err error) {
			msg := err.Error()
			if strings.Contains(msg, "imported and not used") {
				unused = true
				return
			}
			nerr++
			if first == "" {
				first = msg
			}
		}}
		tpkg, _ = conf.Check(p.PkgPath, vfset, files, tinfo)
		return
	}
	nerr, first, unused, tinfo, tpkg, target, vfset := check(fixed)
	if nerr > 0 && s.Kind == "quoted" && s.Category == "stmt" {
		// the quoted code may stand for the flagged statement and the statements that follow it (a multi-statement idiom):
		// take the smallest extension over following sibling statements that type-checks
		var sibs []ast.Stmt
		ast.Inspect(f, func(x ast.Node) bool {
			if b, ok := x.(*ast.BlockStmt); ok {
				for i, st := range b.List {
					if tf.Offset(st.Pos()) == s.From {
						sibs = b.List[i+1:]
					}
				}
			}
			return true
		})
		for k := 0; k < 3 && k < len(sibs) && nerr > 0; k++ {
			to := tf.Offset(sibs[k].End())
			cand := append(append(append([]byte{}, src[:s.From]...), []byte(s.Repl)...), src[to:]...)
			n2, f2, u2, ti2, tp2, tg2, vf2 := check(cand)
			if n2 == 0 {
				s.To, s.Flagged, s.Category = to, string(src[s.From:to]), "stmts"
				fixed = cand
				nerr, first, unused, tinfo, tpkg, target, vfset = n2, f2, u2, ti2, tp2, tg2, vf2
				if fn != nil && withFuncs {
					a, b := tf.Offset(fn.Pos()), tf.Offset(fn.End())
					s.FixedSrc = string(src[a:s.From]) + s.Repl + string(src[to:b])
				}
				s.MarkersLost = bytes.Count(src, []byte("marker(")) - bytes.Count(fixed, []byte("marker("))
			}
		}
	}
	if nerr > 0 && strings.Contains(first, "undefined:") {
		// import bookkeeping, as an editor does on apply
		name := strings.TrimSpace(first[strings.LastIndex(first, "undefined:")+len("undefined:"):])
		if path, ok := stdImportFor[name]; ok && strings.Contains(s.Repl, name+".") {
			idx := bytes.Index(fixed, []byte("\n"))
			pk := bytes.Index(fixed, []byte("package "))
			if pk >= 0 {
				idx = pk + bytes.Index(fixed[pk:], []byte("\n"))
			}
			withImp := append(append(append([]byte{}, fixed[:idx+1]...), []byte(fmt.Sprintf("\nimport %q\n", path))...), fixed[idx+1:]...)
			s.AddedImports++
			nerr, first, unused, tinfo, tpkg, target, vfset = check(withImp)
		}
	}
	s.TypeOK = nerr == 0
	s.TypeErr = first
	s.UnusedImport = unused
	if nerr != 0 || target == nil {
		return
	}
	// type of the replaced expression
	s.TypeKept = true
	if typeBefore != nil && (s.Category == "expr") {
		shift := 0
		if s.AddedImports > 0 {
			shift = -1 // offsets moved; find by text instead
		}
		var after types.Type
		vtf := vfset.File(target.Pos())
		ast.Inspect(target, func(x ast.Node) bool {
			e, ok := x.(ast.Expr)
			if !ok || after != nil {
				return true
			}
			a, b := vtf.Offset(e.Pos()), vtf.Offset(e.End())
			if (shift == 0 && a == s.From && b == s.From+len(s.Repl)) || (shift != 0 && b-a == len(s.Repl) && vtf.Line(e.Pos()) >= s.Line && vtf.Line(e.Pos()) <= s.Line+4 && squashAt(vtf, target, e, s.Repl)) {
				if tv, ok := tinfo.Types[e]; ok {
					after = tv.Type
				}
			}
			return true
		})
		if after != nil {
			s.TypeBefore, s.TypeAfter = typeBefore.String(), after.String()
			db, da := types.Default(typeBefore), types.Default(after)
			s.TypeKept = types.Identical(db, da) || canonType(db) == canonType(da)
		}
	}
	// re-analysis: the same diagnostic at the same place?
	ctx := linter.NewContext(vfset, hx.Sizes)
	if goVer != "" {
		ctx.SetGoVersion(goVer)
	}
	ctx.SetPackageInfo(tinfo, tpkg)
	c, err := linter.NewChecker(ctx, in)
	if err == nil {
		func() {
			defer func() { recover() }()
			ctx.SetFileInfo(filepath.Base(tf.Name()), target)
			same := false
			after := c.Check(target)
			for _, w := range after {
				ps := vfset.Position(w.Pos)
				if w.Text == s.Text && ps.Line == s.Line+2*s.AddedImports && ps.Column == s.Col {
					same = true
				}
			}
			// the same text at the same place although the number of diagnostics did not go down
			// (a nested construct may legitimately take the place and the text of the repaired one)
			s.SameAfter = same
			s.StillThere = same && len(after) >= totalBefore
		}()
	}
}

// canonType prints a type without parameter names and with named types by path.name, so that types from two
// type-check universes can be compared.
func canonType(t types.Type) string {
	switch t := t.(type) {
	case *types.Named:
		s := t.Obj().Name()
		if t.Obj().Pkg() != nil {
			s = t.Obj().Pkg().Path() + "." + s
		}
		if ta := t.TypeArgs(); ta != nil {
			var as []string
			for i := 0; i < ta.Len(); i++ {
				as = append(as, canonType(ta.At(i)))
			}
			s += "[" + strings.Join(as, ",") + "]"
		}
		return s
	case *types.Pointer:
		return "*" + canonType(t.Elem())
	case *types.Slice:
		return "[]" + canonType(t.Elem())
	case *types.Array:
		return fmt.Sprintf("[%d]%s", t.Len(), canonType(t.Elem()))
	case *types.Map:
		return "map[" + canonType(t.Key()) + "]" + canonType(t.Elem())
	case *types.Chan:
		return fmt.Sprintf("chan%d %s", t.Dir(), canonType(t.Elem()))
	case *types.Tuple:
		var as []string
		for i := 0; i < t.Len(); i++ {
			as = append(as, canonType(t.At(i).Type()))
		}
		return "(" + strings.Join(as, ",") + ")"
	case *types.Signature:
		v := ""
		if t.Variadic() {
			v = "..."
		}
		return "func" + v + canonType(t.Params()) + canonType(t.Results())
	default:
		return t.String()
	}
}

func squashAt(tf *token.File, f *ast.File, e ast.Expr, repl string) bool { return true }

var _ = sort.Strings
