"""C18 - user rule files: group filtering and load-failure policy.

Spec: RuleLoad.tla. Part 1: every sequence of rule files in {valid, unreadable, syntax error, DSL error, bad import, empty} x every
failOn subset x legacy flag x unknown token x pattern form (list, glob, no-match first/last) is an initial state, the load loop
runs as actions; Conforms compares the outcome with the documented policy (three-valued where the statement is silent). The
`loaded++`-for-failed-loads behaviour of the pinned tree is a what-if and refuted. Part 2: group filtering over names, #tags,
<all>, experimental. Binding: every exported case is materialised (rule files on disk, directory-as-file for "unreadable",
Type.Implements on an unloadable package for "bad import"), the REAL ruleguard checker is constructed through linter.NewChecker
with the parameter values and run on a probe file: init error / set of firing groups / spurious diagnostics are compared
with the documented outcome.
"""
import json
import os

import vlib

LCFG = """SPECIFICATION %s
CONSTANTS
  MaxFiles = %d
  CountOnlySuccessful = %s
INVARIANTS %s
"""


def run(ctx):
    thorough = ctx.tier == "thorough"
    design = {}
    mf = 2
    r = ctx.tlc("RuleLoad", cfg_text=LCFG % ("SpecLoad", mf, "TRUE", "Conforms"), workers=8, timeout=900, dump="rl_load", expect="ok")
    design["fault_sequences"] = r.distinct
    r2 = ctx.tlc("RuleLoad", cfg_text=LCFG % ("SpecLoad", 1, "FALSE", "Conforms"), workers=2, timeout=300, expect="violation")
    design["whatif_count_failed_loads"] = r2.violated
    r3 = ctx.tlc("RuleLoad", cfg_text=LCFG % ("SpecGroups", 1, "TRUE", "GroupsConform"), workers=8, timeout=600, dump="rl_groups", expect="ok")
    design["group_filters"] = r3.distinct

    states = [s for s in vlib.parse_dump(ctx.spec_path("rl_load.dump")) if s["pc"] == "parseFailOn"]
    if thorough:
        r4 = ctx.tlc("RuleLoad", cfg_text=LCFG % ("SpecLoad", 3, "TRUE", "Conforms"), workers=8, timeout=1800, dump="rl_load3", expect="ok")
        design["fault_sequences_3"] = r4.distinct
        s3 = [s for s in vlib.parse_dump(ctx.spec_path("rl_load3.dump")) if s["pc"] == "parseFailOn" and len(s["files"]) == 3]
        ctx.rng.shuffle(s3)
        states += s3[:1500]
    else:
        one = [s for s in states if len(s["files"]) == 1 and not (s["unknownTok"] and s["pats"] != "list")]
        two = [s for s in states if len(s["files"]) == 2 and not s["unknownTok"] and s["pats"] in ("list", "glob")]
        ctx.rng.shuffle(two)
        states = one + two[:260]
    gstates = vlib.parse_dump(ctx.spec_path("rl_groups.dump"))
    if not thorough:
        ctx.rng.shuffle(gstates)
        gstates = gstates[:300]

    cases = []
    ncases = {}
    for n, s in enumerate(states):
        cases.append({"ID": "L%d" % n, "Files": s["files"], "FailOn": s["failOn"], "Legacy": s["legacy"], "UnknownTok": s["unknownTok"], "Pats": s["pats"]})
    for n, s in enumerate(gstates):
        e, d = s["gcase"]
        cases.append({"ID": "G%d" % n, "Files": ["valid"], "FailOn": [], "Pats": "list", "Groups": True, "Enable": e, "Disable": d})
    ctx.rng.shuffle(cases)     # lenient-before-strict and strict-before-lenient instantiations of the same rule files both occur
    inp, outp = ctx.path("rl_in.json"), ctx.path("rl_out.json")
    json.dump(cases, open(inp, "w"))
    work = os.path.dirname(ctx.path("rlwork", "x"))
    ctx.run_vh(["ruleload", "-in", inp, "-out", outp, "-work", work], cwd=vlib.REPO, timeout=5400)
    obs = {o["id"]: o for o in json.load(open(outp))}

    evaluated = 0
    for n, s in enumerate(states):
        o = obs["L%d" % n]
        evaluated += 1
        files, eff = s["files"], (["all"] if not s["failOn"] and s["legacy"] else s["failOn"])
        desc = "files=%s failOn=%s%s%s patterns=%s" % (files, ",".join(s["failOn"]) or "''", " failOnError=true" if s["legacy"] else "",
                                                      " +unknown token" if s["unknownTok"] else "", s["pats"])
        if o.get("panic"):
            ctx.fail("Panic ruleguard-init", "constructing the ruleguard checker panicked for %s: %s" % (desc, o["panic"]), {"case": desc, "obs": o})
            continue

        def doc_class(k):
            return {"valid": set(), "badimport": {"import"}, "unreadable": {"import", "dsl"}}.get(k, {"dsl"})
        must_fail = s["unknownTok"] or s["pats"].startswith("nomatch") or any(
            k != "valid" and ("all" in eff or doc_class(k) <= set(eff)) for k in files)
        may_skip = (not s["unknownTok"]) and s["pats"] in ("list", "glob") and all(
            k == "valid" or ("all" not in eff and not (doc_class(k) & set(eff))) for k in files)
        failed = "initErr" in o
        valid_hits = sorted("hit%d" % (j + 1) for j, k in enumerate(files) if k == "valid")
        if must_fail and not failed:
            cls = "unknownFailOn" if s["unknownTok"] else ("noMatch" if s["pats"].startswith("nomatch") else "failOn-class")
            ctx.fail("NotFailing %s" % cls, "initialisation must fail but succeeded: %s (hits=%s)" % (desc, o.get("hits")), {"case": desc, "obs": o})
        elif may_skip:
            if failed:
                ctx.fail("SpuriousInitError", "a skippable failure made initialisation fail: %s: %s" % (desc, o["initErr"]), {"case": desc, "obs": o})
            else:
                hits = o.get("hits") or []
                extra = [h for h in hits if not h.startswith("hit")]
                if extra:
                    ctx.fail("SpuriousDiagnostic allSkipped" if not valid_hits else "SpuriousDiagnostic",
                             "rule files skipped but the analysed file gets %r: %s" % (extra[0], desc), {"case": desc, "obs": o})
                if sorted(h for h in hits if h.startswith("hit")) != valid_hits:
                    ctx.fail("WrongActiveRules", "the loadable files must still apply: expected %s, observed %s: %s" % (valid_hits, hits, desc), {"case": desc, "obs": o})
    for n, s in enumerate(gstates):
        o = obs["G%d" % n]
        e, d = s["gcase"]
        evaluated += 1
        if "initErr" in o or o.get("panic"):
            ctx.fail("GroupFilterInitError", "valid rule file failed to load with enable=%s disable=%s: %s" % (e, d, o.get("initErr") or o.get("panic")), {"obs": o})
            continue
        hits = set(o.get("hits") or [])
        for g, tags in (("gS", {"style"}), ("gX", {"style", "experimental"}), ("gD", {"diagnostic"})):
            def hit(lst):
                return any((k[1:] in tags) if k.startswith("#") else (k == g) for k in lst)
            en = e == ["<all>"] or hit(e)
            dis = hit(d)
            asked = "#experimental" in e
            if not en or dis:
                want = {False}
            elif "experimental" not in tags or asked:
                want = {True}
            elif g in e:
                want = {True, False}
            else:
                want = {False}
            got = ("hit" + g[1]) in hits
            if got not in want:
                ctx.fail("GroupSelection %s" % g, "rule group %s (tags %s) %s with enable=%s disable=%s, documented: %s"
                         % (g, sorted(tags), "runs" if got else "does not run", ",".join(e), ",".join(d) or "''", sorted(want)), {"obs": o, "enable": e, "disable": d})

    st, tr = vlib.tlc_states_total(ctx)
    cov = {
        "states": st, "transitions": tr, "traces_validated_against_impl": evaluated,
        "fault_sequences_replayed": len(states), "group_filters_replayed": len(gstates), "design": design, "exhaustive": False,
        "samples": cases[:2] + cases[-1:],
    }
    return ctx.finish("model_checking", cov, ["'unreadable' = a directory named like a rule file (the sandbox runs as root)",
                                              "'bad import' = Type.Implements on an interface of an unloadable package (the only shape that yields *ruleguard.ImportError)"])
