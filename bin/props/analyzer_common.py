"""Analyzer.tla design runs and recorded / race runs of the real analyzer through the x/tools driver (C04, C19, C08)."""
import json
import os

import vlib

ACFG = """SPECIFICATION Spec
CONSTANTS
  Passes = {%s}
  InitFails = %s
  LatchSkips = %s
  UnlockAlways = TRUE
INVARIANTS %s
"""
ALIVE = """SPECIFICATION LiveSpec
CONSTANTS
  Passes = {%s}
  InitFails = %s
  LatchSkips = TRUE
  UnlockAlways = %s
PROPERTIES AllReturn
"""
AINV = "NoPanic CfgOrErr NoPartial NoParamRace WrittenOnce MutexOK ErrReportedOnce"


def design(ctx, passes=3):
    ps = ", ".join(str(i) for i in range(1, passes + 1))
    out = {}
    r = ctx.tlc("Analyzer", cfg_text=ACFG % (ps, "FALSE", "TRUE", AINV), workers=4, timeout=300, expect="ok")
    out["initOK"] = r.distinct
    r = ctx.tlc("Analyzer", cfg_text=ACFG % (ps, "TRUE", "TRUE", AINV), workers=4, timeout=300, expect="ok")
    out["initFails_latchSkips"] = r.distinct
    r = ctx.tlc("Analyzer", cfg_text=ACFG % (ps, "TRUE", "FALSE", AINV), workers=4, timeout=300, expect="violation")
    out["whatif_latchReturnsNeither"] = r.violated
    # liveness: every pass returns; a latch path that keeps the mutex blocks every later pass
    for fails in ("FALSE", "TRUE"):
        r = ctx.tlc("Analyzer", cfg_text=ALIVE % (ps, fails, "TRUE"), workers=4, timeout=300, expect="ok")
        out["liveness_initFails_%s" % fails] = r.distinct
    out["whatif_latchKeepsMutex"] = ctx.tlc("Analyzer", cfg_text=ALIVE % (ps, "TRUE", "FALSE"), workers=4, timeout=300, expect="violation").violated
    return out


def analyze(ctx, wdir, flags="", sequential=False, trace=None, race=False, repeat=1, init_embedded=False, patterns="./...", tests=True):
    outp = ctx.path("an", "out_%d.json" % len(os.listdir(os.path.dirname(ctx.path("an", "x")))))
    args = ["analyze", "-dir", wdir, "-patterns", patterns, "-out", outp, "-repeat", str(repeat)]
    if flags:
        args += ["-flags", flags]
    if sequential:
        args += ["-sequential"]
    if trace:
        args += ["-trace", trace]
    if init_embedded:
        args += ["-init-embedded"]
    if not tests:
        args += ["-tests=false"]
    r = ctx.run_vh(args, race=race, check=False, env={"GORACE": "halt_on_error=0"}, timeout=3000)
    res = json.load(open(outp)) if os.path.exists(outp) else None
    return r, res


def concurrent_runs(ctx, w, thorough):
    """C04: parallel passes vs sequential passes (diagnostics equal, no race report), recorded run validated by TraceAnalyzer."""
    out = {"traces": 0, "events": 0, "race_runs": 0}
    tf = ctx.spec_path("an_par.ndjson")
    r, par = analyze(ctx, w["dir"], flags="enable-all=true", trace=tf)
    r2, seq = analyze(ctx, w["dir"], flags="enable-all=true", sequential=True)
    if par is None or seq is None:
        raise vlib.Infra("analyzer run failed: %s %s" % (r.stderr[-1500:], r2.stderr[-1500:]))
    dp, ds = par["runs"][0].get("diags"), seq["runs"][0].get("diags")
    if par["runs"][0].get("panic") or seq["runs"][0].get("panic"):
        ctx.fail("AnalyzerPanic", "analyzer panicked: %s" % (par["runs"][0].get("panic") or seq["runs"][0].get("panic")), {})
    elif dp != ds:
        ctx.fail("AnalyzerParallelDiffers", "diagnostics of parallel passes differ from sequential passes (%d vs %d)" % (len(dp or []), len(ds or [])), {})
    if not ds:
        raise vlib.Infra("analyzer produced no diagnostics on the workspace")
    out["diagnostics"] = len(ds)
    ok, bad, st = ctx.validate_trace("TraceAnalyzer", tf, chunks=1, env={"INITFAILS": "0"})
    n = sum(1 for _ in open(tf))
    out["traces"] += 1
    out["events"] += n
    if not ok:
        line = open(tf).read().splitlines()[bad - 1] if bad and bad <= n else "<end of trace>"
        ctx.fail("AnalyzerTraceRejected", "TraceAnalyzer rejects the recorded parallel run at line %s: %s" % (bad, line), {"line": bad, "event": line})
    # race detector: parallel passes, no recorder
    for k in range(2 if thorough else 1):
        rr, res = analyze(ctx, w["dir"], flags="enable-all=true", race=True, repeat=12 if thorough else 6)
        out["race_runs"] += 1
        if "DATA RACE" in rr.stderr:
            i = rr.stderr.index("DATA RACE")
            ctx.fail("DataRace analyzer", "race detector report with parallel analyzer passes: %s" % rr.stderr[i:i + 1500], {})
        elif res is None:
            raise vlib.Infra("race-built analyzer run failed: %s" % rr.stderr[-1500:])
        elif res["runs"][0].get("diags") != ds:
            ctx.fail("AnalyzerParallelDiffers race-build", "race-built parallel run differs from sequential run", {})
    # twin packages: the example files of every checker in two packages, so that two instances of every checker work on the same
    # kind of subject at the same time (state shared between instances shows up as a race or as a differing result)
    tw = twin_workspace(ctx, every=1 if thorough else 6)
    r3, seq3 = analyze(ctx, tw, flags="enable-all=true", sequential=True, tests=False)
    rr3, par3 = analyze(ctx, tw, flags="enable-all=true", race=True, repeat=2, tests=False)
    out["twin_packages"] = len(os.listdir(tw)) - 1
    if "DATA RACE" in rr3.stderr:
        k = rr3.stderr.index("DATA RACE")
        ctx.fail("DataRace analyzer", "race detector report with parallel analyzer passes over twin packages: %s" % rr3.stderr[k:k + 1500], {})
    elif seq3 is None or par3 is None:
        raise vlib.Infra("analyzer run on the twin workspace failed: %s %s" % (r3.stderr[-800:], rr3.stderr[-800:]))
    elif par3["runs"][0].get("panic"):
        ctx.fail("AnalyzerPanic", "analyzer panicked on the twin workspace: %s" % par3["runs"][0]["panic"], {})
    elif any(run.get("diags") != seq3["runs"][0].get("diags") for run in par3["runs"]):
        ctx.fail("AnalyzerParallelDiffers twin", "parallel passes over twin packages differ from sequential passes", {})
    return out


def twin_workspace(ctx, every=1):
    """Every example directory of the repository (quick tier: every sixth, rotated by the seed) twice (a/b) in one module;
    directories that do not build on their own are left out."""
    import re
    import shutil
    import subprocess
    d = os.path.join(ctx.scratch, "twin_ws")
    if os.path.exists(d):
        return d
    os.makedirs(d)
    open(os.path.join(d, "go.mod"), "w").write("module example.com/twin\n\ngo 1.21\n")
    td = os.path.join(vlib.REPO, "checkers", "testdata")
    for idx, name in enumerate(sorted(os.listdir(td))):
        src = os.path.join(td, name)
        if name.startswith("_") or not os.path.isdir(src) or idx % every != ctx.seed % every:
            continue
        files = [f for f in os.listdir(src) if f.endswith(".go") and not f.endswith("_test.go")]
        if not files or any(os.path.isdir(os.path.join(src, f)) for f in os.listdir(src)):
            continue
        for suffix in ("a", "b"):
            pd = os.path.join(d, "%s_%s" % (name.lower(), suffix))
            os.makedirs(pd)
            for f in files:
                txt = open(os.path.join(src, f)).read()
                txt = re.sub(r"^package \w+", "package %s%s" % (re.sub(r"\W", "", name.lower()), suffix), txt, count=1, flags=re.M)
                open(os.path.join(pd, f), "w").write(txt)
    for attempt in range(6):
        r = subprocess.run(["go", "build", "./..."], cwd=d, env=vlib.goenv(), capture_output=True, text=True)
        if r.returncode == 0:
            break
        bad = set(re.findall(r"^# example\.com/twin/(\S+)", r.stderr, re.M)) | set(re.findall(r"^(\w+)/\S+\.go:\d+", r.stderr, re.M))
        if not bad:
            raise vlib.Infra("twin workspace does not build: " + r.stderr[-800:])
        for b in bad:
            shutil.rmtree(os.path.join(d, b), ignore_errors=True)
    else:
        raise vlib.Infra("twin workspace does not build after pruning: " + r.stderr[-800:])
    if len(os.listdir(d)) < 60 // every:
        raise vlib.Infra("twin workspace has only %d packages" % (len(os.listdir(d)) - 1))
    return d
