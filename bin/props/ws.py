"""Temp workspaces for the real binaries: example files re-packaged under ordinary package names
(two packages named *_test in ordinary files crash pkgload - DESIGN.md 4.7)."""
import os
import re
import shutil
import subprocess

import vlib

GOOD = ["dupCase", "ifElseChain", "typeSwitchVar", "mapKey", "elseif", "unlambda", "assignOp", "badCond", "sloppyLen",
        "captLocal", "appendAssign", "boolExprSimplify", "dupSubExpr", "valSwap", "underef", "unslice", "switchTrue",
        "singleCaseSwitch", "yodaStyleExpr", "typeUnparen", "emptyStringTest", "nestingReduce", "paramTypeCombine",
        "rangeValCopy", "hugeParam", "deferUnlambda", "dupBranchBody", "offBy1", "regexpMust", "wrapperFunc"]


def make(ctx, name, npk, files=("positive_tests.go", "negative_tests.go"), with_tests=False, pick=None, adv=(), dsl=False):
    d = os.path.dirname(ctx.path(name, "go.mod"))
    with open(os.path.join(d, "go.mod"), "w") as f:
        f.write("module example.com/ws\n\ngo 1.21\n")
        if dsl:
            # user rule files can only be loaded from inside a module that requires the ruleguard DSL package
            f.write("\nrequire github.com/quasilyte/go-ruleguard/dsl v0.3.22\n")
    if dsl:
        shutil.copy(os.path.join(vlib.REPO, "go.sum"), os.path.join(d, "go.sum"))
        with open(os.path.join(d, "tools.go"), "w") as f:
            f.write("//go:build tools\n\npackage tools\n\nimport _ \"github.com/quasilyte/go-ruleguard/dsl\"\n")
    names = list(pick) if pick else GOOD[:]
    if not pick:
        ctx.rng.shuffle(names)
    pkgs = []
    used = []
    for n in names:
        if len(pkgs) >= npk:
            break
        i = len(pkgs)
        pd = os.path.join(d, "p%d" % i)
        os.makedirs(pd, exist_ok=True)
        ok = False
        for fn in files:
            src = os.path.join(vlib.REPO, "checkers", "testdata", n, fn)
            if not os.path.exists(src):
                continue
            txt = open(src).read()
            txt = re.sub(r"^package checker_test", "package p%d" % i, txt, count=1, flags=re.M)
            with open(os.path.join(pd, fn.replace("_tests", "")), "w") as f:
                f.write(txt)
            ok = True
        if with_tests and ok:
            with open(os.path.join(pd, "extra_test.go"), "w") as f:
                f.write("package p%d\n\nfunc helperForTest(x int) int {\n\tx = x + 1\n\treturn x\n}\n" % i)
        if ok:
            pkgs.append("./p%d" % i)
            used.append(n)
    for a in adv:
        src = os.path.join(vlib.VERIF, "corpus", "adv", a)
        dst = os.path.join(d, "adv_" + a)
        os.makedirs(dst, exist_ok=True)
        for fn in os.listdir(src):
            open(os.path.join(dst, fn), "w").write(open(os.path.join(src, fn)).read())
        pkgs.append("./adv_" + a)
    # the workspace must type-check
    r = subprocess.run(["go", "vet", "-vettool=/bin/true", "./..."], cwd=d, env=vlib.goenv(), capture_output=True, text=True)
    r = subprocess.run(["go", "build", "./..."], cwd=d, env=vlib.goenv(), capture_output=True, text=True)
    if r.returncode != 0:
        raise vlib.Infra("generated workspace does not build: %s" % r.stderr[-2000:])
    return {"dir": d, "pkgs": pkgs, "examples": used}


def run_cli(binp, cwd, args, env=None, timeout=900):
    """Run `<bin> check args`; returns (rc, stderr lines, raw stderr)."""
    r = subprocess.run([binp, "check"] + args, cwd=cwd, capture_output=True, text=True, env=vlib.goenv(env), timeout=timeout)
    lines = [l for l in r.stderr.splitlines() if l.strip()]
    return r.returncode, lines, r.stderr
