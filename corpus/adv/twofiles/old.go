//go:build go1.12

package twofiles

import "sync"

// a file that constrains its own language version
func oldOctal() (int, func()) {
	var o sync.Once
	return 0755, func() { o.Do(func() {}) }
}
