SPECIFICATION SpecLoc
CONSTANTS
  Segs <- DefaultSegs
  SegLen <- DefaultSegLen
  MaxDepth = 3
  PrefixCheck = TRUE
  AllComments = TRUE
INVARIANTS RoundTrip
