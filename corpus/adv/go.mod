module example.com/adv

go 1.21
