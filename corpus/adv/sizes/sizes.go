// Package sizes: size- and architecture-dependent shapes.
package sizes

type big struct{ a [128]byte }

type word struct{ a, b, c uintptr }

type empty struct{}

type generic[T any] struct {
	v T
	p *T
}

func cmp(x int, y int16, u uint, v uint8, p uintptr, q uint32) bool {
	return int16(x) < y || uint8(u) > v || uint32(p) == q || int8(x) <= int8(y) || int32(x) < int32(y)
}

func cmp2(x int64, y int32, z int8) bool {
	return int32(x) < y && int8(y) < z && int8(x) != z
}

func huge(b big, w word, e empty, g generic[int], gb generic[big]) {}

func hugeGeneric[T any](g generic[T], t T, ts [4]T) {}

func ranges(bs []big, ws [4]word, m map[string]big, arr [64]big, parr *[64]big) int {
	n := 0
	for _, b := range bs {
		n += len(b.a)
	}
	for _, w := range ws {
		n += int(w.a)
	}
	for _, b := range m {
		n += len(b.a)
	}
	for _, b := range arr {
		n += len(b.a)
	}
	for i := range arr {
		n += i
	}
	for _, b := range parr {
		n += len(b.a)
	}
	for range arr {
		n++
	}
	return n
}

func results() (int, int, int, int, int, int) { return 0, 0, 0, 0, 0, 0 }

func results5() (a, b, c, d, e int) { return }

type ider interface{ IsUnique() bool }

// anonymous struct types with type-parameter fields (sizes cannot be computed: issue 1354 shape)
func anon[T ider](id T, pair struct{ a, b T }) int {
	cases := []struct {
		id T
		n  [16]int
	}{{id: id}}
	n := 0
	for _, tc := range cases {
		if tc.id.IsUnique() {
			n++
		}
	}
	arr := [4]struct{ v T }{}
	for _, e := range arr {
		_ = e
	}
	for range arr {
		n++
	}
	_ = pair
	return n
}

func anon2[K comparable, V any](m map[K]struct {
	k K
	v V
}, s struct{ k K }) (r struct{ v V }) {
	for _, e := range m {
		_ = e
	}
	_ = s
	return
}

// returns whose results depend on the evaluation order (an argument is mutated through its address)
func bumpSizes(x *int) int {
	*x += 10
	return *x
}

func orderDependentSizes(a, b, c, d int) (int, int, int, int, int, int, int, int) {
	f := func() (int, int) { return a, bumpSizes(&a) }
	g := func() (int, int) { return bumpSizes(&b), b }
	h := func() (int, int) { return c, bumpSizes(&d) }
	k := func() (int, int) { return d, bumpSizes(&d) }
	a1, a2 := f()
	b1, b2 := g()
	c1, c2 := h()
	d1, d2 := k()
	return a1, a2, b1, b2, c1, c2, d1, d2
}
