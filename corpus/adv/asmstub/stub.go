// Package asmstub declares functions without bodies (implemented in assembly: the empty stub.s makes that legal).
package asmstub

type vec struct{ xs [40]int }

func sum(v vec) int

func dot(a, b *vec) (r int)

func (v vec) norm() int

func useAll(vs []vec) int {
	n := 0
	for _, v := range vs {
		n += sum(v) + v.norm()
	}
	return n + dot(&vs[0], &vs[0])
}
