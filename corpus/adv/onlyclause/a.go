// Package onlyclause: a file with diagnostics followed (in file order) by a file that is only a package clause.
package onlyclause

func A(xs []int, x int) bool {
	x = x + 1
	return len(xs) >= 0 || x == x
}
