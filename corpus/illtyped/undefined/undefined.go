// Package undefined does not type-check: identifiers without declarations, wrong argument counts, unused things.
package undefined

import (
	"os"
	"regexp"
	missing "example.com/illtyped/nowhere"
)

var re = regexp.MustCompile(`[0-9]+[0-9]*`, 1)

func F(xs []int, p *T) int {
	y := undefinedFunc(xs)
	y = y + 1
	if p == nil {
		return p.field
	}
	unused := 1
	for i := 0; i < len(xs); i++ {
		xs[i] = missing.Value + q
	}
	switch v := anything.(type) {
	case int:
		return v
	case interface{}:
		return 0
	case string:
		return len(v)
	}
	return y
}
