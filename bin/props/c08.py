"""C08 - all front-ends report the same diagnostics.

Spec: Registry.tla (two-phase registration, snapshot time per front-end; SameOffer refuted for the pinned ordering in which the
analyzer takes its snapshot before the rule-based checkers are registered) and the diagnostic-set equality over workspace shapes.
Binding: offers extracted from the five real binaries; TLC-independent replay: workspaces with plain packages, in-package tests,
external tests and several packages are analysed by the four binaries with equivalent flag vectors and the normalised
(file, line, col, checker, message) multisets are compared; quick fixes of the in-process analyzer run are compared with the
warnings of the linter.
"""
import json
import os
import re
import subprocess

import vlib
from props import ws as wsmod
from props import analyzer_common as ac

RCFG = """SPECIFICATION Spec
CONSTANTS
  Handwritten = {"h1", "h2"}
  Groups = {"g1", "g2"}
  AnalyzerInitsEmbedded = %s
INVARIANTS SameOffer OneCheckerPerGroup
"""
LINE = re.compile(r"^(\S+?\.go):(\d+):(\d+): (\w+): (.*)$")

# equivalent configurations: (cli args, analysis args); explicit lists stay explicit (Selection!Translatable)
CONFIGS = [
    ("defaults", [], []),
    ("all", ["-enableAll"], ["-enable-all"]),
    ("byname", ["-enable=dupCase,assignOp,elseif,sloppyLen,wrapperFunc,captLocal,hugeParam", "-disable="],
     ["-enable=dupCase,assignOp,elseif,sloppyLen,wrapperFunc,captLocal,hugeParam", "-disable="]),
    ("bytag", ["-enable=#diagnostic,#performance", "-disable=#experimental"], ["-enable=#diagnostic,#performance", "-disable=#experimental"]),
    ("go116", ["-enableAll", "-go=1.16"], ["-enable-all", "-go=1.16"]),
    ("go112", ["-enable=octalLiteral,wrapperFunc,syncMapLoadAndDelete,timeExprSimplify,badSyncOnceFunc,rangeAppendAll", "-disable=", "-go=go1.12"],
     ["-enable=octalLiteral,wrapperFunc,syncMapLoadAndDelete,timeExprSimplify,badSyncOnceFunc,rangeAppendAll", "-disable=", "-go=go1.12"]),
    ("params", ["-enableAll", "-@hugeParam.sizeThreshold=8", "-@captLocal.paramsOnly=false", "-@ifElseChain.minThreshold=1"],
     ["-enable-all", "-@hugeParam.sizeThreshold=8", "-@captLocal.paramsOnly=false", "-@ifElseChain.minThreshold=1"]),
    ("notests", ["-enableAll", "-checkTests=false"], ["-enable-all", "-test=false"]),
]
PKGDEP = os.path.join(vlib.VERIF, "corpus", "rules", "pkgdep.go")
# user rules whose filters depend on the package of the analysed file
CONFIGS.insert(5, ("userrules", ["-enable=ruleguard,commentFormatting", "-disable=", "-@ruleguard.rules=" + PKGDEP],
                   ["-enable=ruleguard,commentFormatting", "-disable=", "-@ruleguard.rules=" + PKGDEP]))


def norm(lines, wdir):
    out = []
    for l in lines:
        m = LINE.match(l.strip())
        if not m:
            continue
        f = m.group(1)
        if not os.path.isabs(f):
            f = os.path.normpath(os.path.join(wdir, f))
        out.append("%s:%s:%s: %s: %s" % (os.path.realpath(f), m.group(2), m.group(3), m.group(4), m.group(5)))
    return sorted(out)


def make_shapes(ctx):
    """One module with: a plain package, one with in-package tests, one with external tests, one with both."""
    w = wsmod.make(ctx, "ws_c08", 4, adv=("imports", "noimports", "gated", "onlyclause", "percent", "comments"), dsl=True)
    d = w["dir"]
    # files without any declaration still carry comments that checkers report
    open(os.path.join(d, "p0", "doc.go"), "w").write("//Package p0 has a doc comment without a space after the slashes.\npackage p0\n")
    open(os.path.join(d, "p2", "zz_doc.go"), "w").write("/*\nPackage p2 is documented in a block comment.\n*/\n\n//TODO\npackage p2\n")
    for k in range(4):
        # a self-assignment and a sloppy length test in every package (subjects of the package-dependent user rules)
        open(os.path.join(d, "p%d" % k, "zz_subjects.go"), "w").write(
            "package p%d\n\nfunc zzSubjects(xs []int, x int) (int, bool) {\n\tx = x + 1\n\tx = x * 2\n\treturn x, len(xs) >= 0\n}\n" % k)
    intest = "package p1\n\nimport \"testing\"\n\nfunc TestIn(t *testing.T) {\n\tx := 1\n\tx = x + 1\n\t_ = x\n\tvar xs []int\n\tif len(xs) >= 0 {\n\t\tt.Log(\"always\")\n\t}\n}\n"
    open(os.path.join(d, "p1", "in_test.go"), "w").write(intest)
    ext = "package p2_test\n\nimport \"testing\"\n\nfunc TestExt(t *testing.T) {\n\ty := 2\n\ty = y * 2\n\t_ = y\n}\n"
    open(os.path.join(d, "p2", "ext_test.go"), "w").write(ext)
    open(os.path.join(d, "p3", "in_test.go"), "w").write(intest.replace("package p1", "package p3"))
    open(os.path.join(d, "p3", "ext_test.go"), "w").write(ext.replace("package p2_test", "package p3_test"))
    r = subprocess.run(["go", "vet", "./..."], cwd=d, env=vlib.goenv(), capture_output=True, text=True)
    if "cannot" in r.stderr or "undefined" in r.stderr:
        raise vlib.Infra("C08 workspace does not type-check: " + r.stderr[-1500:])
    return w


def run(ctx):
    thorough = ctx.tier == "thorough"
    design = {}
    r = ctx.tlc("Registry", cfg_text=RCFG % "TRUE", workers=1, timeout=120, expect="ok")
    design["registry"] = r.distinct
    r = ctx.tlc("Registry", cfg_text=RCFG % "FALSE", workers=1, timeout=120, expect="violation")
    design["whatif_snapshot_before_phase2"] = r.violated

    bins = {fe: ctx.build_repo_bin(p) for fe, p in (("cli", "cmd/go-critic"), ("twin", "cmd/gocritic"),
                                                    ("analysis", "cmd/go-critic-analysis"), ("twin-analysis", "cmd/gocritic-analysis"))}
    w = make_shapes(ctx)
    d = w["dir"]

    # offers
    offers = {}
    for fe in ("cli", "twin"):
        r = subprocess.run([bins[fe], "doc"], cwd=d, capture_output=True, text=True, env=vlib.goenv())
        offers[fe] = sorted(set(l.split()[0] for l in (r.stdout + r.stderr).splitlines() if l.strip() and re.match(r"^\w+ \[", l.strip())))
    for fe in ("analysis", "twin-analysis"):
        r = subprocess.run([bins[fe], "-debug-init", "-enable-all", "./p0"], cwd=d, capture_output=True, text=True, env=vlib.goenv())
        offers[fe] = sorted(set(m.group(1) for m in re.finditer(r"debug: (\w+) is enabled", r.stderr)))
    regp = ctx.path("registry.json")
    ctx.run_vh(["registry", "-out", regp])
    reg = json.load(open(regp))
    full = sorted(c["name"] for c in reg["checkers"])
    if len(offers["cli"]) < 60:
        raise vlib.Infra("could not extract the CLI offer from `doc` (%d names)" % len(offers["cli"]))
    for fe, names in offers.items():
        if names != full:
            missing = sorted(set(full) - set(names))
            extra = sorted(set(names) - set(full))
            ctx.fail("OfferDiffers %s" % ("analysis" if "analysis" in fe else "cli"),
                     "%s offers %d checkers, the registry after both registration phases has %d; missing %s extra %s"
                     % (fe, len(names), len(full), missing[:8], extra[:8]), {"frontend": fe, "missing": missing, "extra": extra})

    # diagnostics equality
    cfgs = CONFIGS if thorough else CONFIGS[:8]
    compared = 0
    total = 0
    samples = []
    for name, cargs, aargs in cfgs:
        res = {}
        for fe in bins:
            if fe in ("cli", "twin"):
                r = subprocess.run([bins[fe], "check"] + cargs + ["./..."], cwd=d, capture_output=True, text=True, env=vlib.goenv(), timeout=900)
            else:
                r = subprocess.run([bins[fe]] + aargs + ["./..."], cwd=d, capture_output=True, text=True, env=vlib.goenv(), timeout=900)
            if "panic:" in r.stderr:
                ctx.fail("Crash %s" % fe, "%s crashed with %s: %s" % (fe, cargs if fe in ("cli", "twin") else aargs, r.stderr[-600:]), {})
            res[fe] = norm(r.stderr.splitlines() + r.stdout.splitlines(), d)
        base = res["cli"]
        total += len(base)
        if not base and name != "notests":
            if ctx.violations:
                continue        # a front-end crashed in this configuration: that is the verdict
            raise vlib.Infra("no diagnostics for configuration %s" % name)
        if name == "userrules":
            allfe = [l for fe in res for l in res[fe]]
            pk = {m.group(1) for l in allfe for m in [re.search(r"/(p\d)/[^/]+: ruleguard: pkgdep", l)] if m}
            if not ctx.violations and (len(pk) < 3 or not any("commentFormatting" in l and "doc.go" in l for l in allfe)):
                raise vlib.Infra("the package-dependent user rules / declaration-less files are not exercised (packages with pkgdep lines: %s)" % sorted(pk))
        if len(samples) < 3 and base:
            samples.append({"config": name, "line": base[0]})
        dup = sorted(set(l for l in base if base.count(l) > 1))
        if dup:
            ctx.fail("DuplicateDiagnostic cli", "config %s: the CLI printed a diagnostic more than once: %s" % (name, dup[:3]), {"config": name, "dup": dup})
        for fe in ("twin", "analysis", "twin-analysis"):
            compared += 1
            if res[fe] != base:
                only_cli = [l for l in base if l not in res[fe]]
                only_fe = [l for l in res[fe] if l not in base]
                kind = "analysis" if "analysis" in fe else "twin"
                checkers = sorted(set(LINE.match(l).group(4) for l in only_cli + only_fe if LINE.match(l)))
                embedded = {c["name"] for c in reg["checkers"] if c["embedded"]}
                cls = "rule-based-missing" if only_cli and not only_fe and set(checkers) <= embedded else "other"
                ctx.fail("DiagnosticsDiffer %s %s" % (kind, cls),
                         "config %s: %s reports %d lines, go-critic %d; only CLI: %s; only %s: %s"
                         % (name, fe, len(res[fe]), len(base), only_cli[:3], fe, only_fe[:3]),
                         {"config": name, "frontend": fe, "only_cli": only_cli[:20], "only_other": only_fe[:20]})

    oldmod = old_module(ctx, bins)
    compared += oldmod
    fixes = fix_forwarding(ctx, w)
    # every pass of the analysis front-end delivers the diagnostics of its own build variant (AnalyzerWork.tla)
    variants = ac.variant_runs(ctx, runs=2)
    st, tr = vlib.tlc_states_total(ctx)
    cov = {
        "build_variants": variants,
        "states": st, "transitions": tr, "traces_validated_against_impl": compared + variants["runs"],
        "configs": [c[0] for c in cfgs], "frontend_comparisons": compared, "diagnostic_lines_cli": total,
        "offers": {k: len(v) for k, v in offers.items()}, "registry": len(full), "fix_forwarding": fixes,
        "design": design, "exhaustive": False, "samples": samples or ["(none)"],
    }
    return ctx.finish("model_checking", cov, ["workspace = example files re-packaged into 4 packages with in-package and external tests",
                                              "equivalent configurations follow Selection!Translatable (explicit lists on both sides, or all defaults, or enable-all)"])


GATED = "octalLiteral,wrapperFunc,syncMapLoadAndDelete,timeExprSimplify,badSyncOnceFunc,rangeAppendAll,sloppyLen"


def old_module(ctx, bins):
    """A module whose go directive is older than the gates of the version-dependent checkers, analysed WITHOUT -go:
    an unset target version means 'no assumptions' on every front-end, whatever the module says."""
    d = os.path.dirname(ctx.path("ws_c08_old", "go.mod"))
    open(os.path.join(d, "go.mod"), "w").write("module example.com/oldmod\n\ngo 1.16\n")
    os.makedirs(os.path.join(d, "gated"), exist_ok=True)
    src = open(os.path.join(vlib.VERIF, "corpus", "adv", "gated", "gated.go")).read()
    open(os.path.join(d, "gated", "gated.go"), "w").write(src)
    r = subprocess.run(["go", "vet", "./..."], cwd=d, env=vlib.goenv(), capture_output=True, text=True)
    if r.returncode != 0 and ("cannot" in r.stderr or "undefined" in r.stderr or "requires go" in r.stderr):
        raise vlib.Infra("C08 old-module workspace does not type-check: " + r.stderr[-800:])
    res = {}
    for fe in bins:
        args = (["check"] if fe in ("cli", "twin") else []) + ["-enable=" + GATED, "-disable=", "./..."]
        r = subprocess.run([bins[fe]] + args, cwd=d, capture_output=True, text=True, env=vlib.goenv(), timeout=600)
        if "panic:" in r.stderr:
            ctx.fail("Crash %s" % fe, "%s crashed on the go 1.16 module: %s" % (fe, r.stderr[-600:]), {})
        res[fe] = norm(r.stderr.splitlines() + r.stdout.splitlines(), d)
    base = res["cli"]
    if not ctx.violations and not any("wrapperFunc" in l or "timeExprSimplify" in l for l in base):
        raise vlib.Infra("the go 1.16 module produced no version-gated diagnostics on the CLI: %s" % base[:3])
    n = 0
    for fe in ("twin", "analysis", "twin-analysis"):
        n += 1
        if res[fe] != base:
            only_cli = [l for l in base if l not in res[fe]]
            only_fe = [l for l in res[fe] if l not in base]
            ctx.fail("DiagnosticsDiffer %s oldmodule" % ("analysis" if "analysis" in fe else "twin"),
                     "module with `go 1.16`, no -go flag: %s reports %d lines, go-critic %d; only CLI: %s; only %s: %s"
                     % (fe, len(res[fe]), len(base), only_cli[:3], fe, only_fe[:3]), {"frontend": fe, "only_cli": only_cli[:20], "only_other": only_fe[:20]})
    return n


def fix_forwarding(ctx, w):
    """The analyzer forwards quick fixes unchanged: compare its TextEdits with the warnings of a direct linter run."""
    outp = ctx.path("direct.json")
    ctx.run_vh(["direct", "-dir", w["dir"], "-out", outp])
    direct = json.load(open(outp))
    rr, res = ac.analyze(ctx, w["dir"], flags="enable-all=true", tests=False)
    if res is None or res["runs"][0].get("panic"):
        raise vlib.Infra("analyzer run for fix forwarding failed: %s" % rr.stderr[-800:])
    offered = set(res.get("offered") or [])
    an = {}
    for dgn in res["runs"][0].get("diags") or []:
        an.setdefault((dgn["pos"], dgn["msg"]), []).append(dgn.get("fixes") or [])
    n = 0
    for wn in direct["warnings"]:
        key = (wn["pos"], wn["checker"] + ": " + wn["text"])
        if key not in an:
            continue  # offer differences are reported above
        n += 1
        want = [wn["fix"]] if wn.get("fix") else []
        if an[key][0] != want:
            ctx.fail("FixNotForwarded", "analyzer edits %s differ from the linter's quick fix %s for %s" % (an[key][0], want, key), {"key": key})
    if n == 0:
        raise vlib.Infra("no common diagnostics between the analyzer run and the direct linter run")
    return {"compared": n, "with_fix": sum(1 for wn in direct["warnings"] if wn.get("fix"))}
