package hx

import (
	"go/scanner"
	"go/token"
	"os"
	"regexp"
	"strings"
	"sync"

	"github.com/go-critic/go-critic/linter"
)

// TokenTable holds, for one physical file, the byte offsets at which a token or a comment starts.
type TokenTable struct {
	Starts map[int]bool
	Size   int
	Src    []byte
	OK     bool // file could be read and scanned
}

var (
	tokMu    sync.Mutex
	tokCache = map[string]*TokenTable{}
)

// Tokens scans the physical file (offsets belong to the physical file even when
// //line directives redirect positions, e.g. cgo).
func Tokens(name string) *TokenTable {
	tokMu.Lock()
	defer tokMu.Unlock()
	if t, ok := tokCache[name]; ok {
		return t
	}
	t := &TokenTable{Starts: map[int]bool{}}
	tokCache[name] = t
	src, err := os.ReadFile(name)
	if err != nil {
		return t
	}
	t.Src = src
	t.Size = len(src)
	fs := token.NewFileSet()
	f := fs.AddFile(name, -1, len(src))
	var s scanner.Scanner
	errs := 0
	s.Init(f, src, func(token.Position, string) { errs++ }, scanner.ScanComments)
	for {
		pos, tok, lit := s.Scan()
		if tok == token.EOF {
			break
		}
		if tok == token.SEMICOLON && lit == "\n" {
			continue // automatically inserted
		}
		t.Starts[f.Offset(pos)] = true
	}
	t.OK = errs == 0
	return t
}

var fmtArtefact = regexp.MustCompile("%!.?\\(|%!$|\\((MISSING|BADINDEX|NOVERB|BADWIDTH|BADPREC)\\)|%!\\(EXTRA ")

// WarnProblems evaluates the C07 obligations for one warning emitted while `physFile`
// (a file of fset) is being analysed. It returns the list of violated obligations.
func WarnProblems(fset *token.FileSet, physFile string, w linter.Warning) []string {
	var bad []string
	if !w.Pos.IsValid() {
		return []string{"NoPos"}
	}
	tf := fset.File(w.Pos)
	if tf == nil {
		return []string{"PosOutsideFileSet"}
	}
	if tf.Name() != physFile {
		bad = append(bad, "PosInOtherFile:"+tf.Name())
	} else {
		tt := Tokens(physFile)
		off := tf.Offset(w.Pos)
		if tt.OK && !tt.Starts[off] {
			bad = append(bad, "NotAtTokenStart")
		}
	}
	if w.HasQuickFix() {
		from, to := w.Suggestion.From, w.Suggestion.To
		switch {
		case !from.IsValid() || !to.IsValid():
			bad = append(bad, "FixNoPos")
		case from > to:
			bad = append(bad, "FixInverted")
		default:
			ff, ft := fset.File(from), fset.File(to)
			if ff == nil || ft == nil || ff.Name() != physFile || ft.Name() != physFile {
				bad = append(bad, "FixOutsideFile")
			}
		}
	}
	txt := w.Text
	switch {
	case strings.TrimSpace(txt) == "":
		bad = append(bad, "EmptyText")
	case fmtArtefact.MatchString(txt):
		bad = append(bad, "FormatArtefact")
	case strings.Contains(txt, "BadExpr") || strings.Contains(txt, "BadStmt") || strings.Contains(txt, "BadDecl"):
		bad = append(bad, "BadNodeInText")
	case strings.Contains(txt, "<nil>"):
		// only an artefact when the analysed file itself does not contain that text
		tt := Tokens(physFile)
		if tt.Src != nil && !strings.Contains(string(tt.Src), "<nil>") {
			bad = append(bad, "NilInText")
		}
	}
	return bad
}
