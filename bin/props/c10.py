"""C10 - simplification suggestions preserve program behaviour.

Spec: Exprs.tla - a fragment of Go boolean expressions (comparisons over int and float variables, +-1, literals spelled 1 2 010
011 0x2, negation, and/or), its evaluation (IEEE comparison with NaN; literals by their Go value) and a transcription of
boolExprSimplify (doubleNegation, negatedEquals, invertComparison, combineChecks, removeIncDec, foldRanges with the code's guards);
Preserves holds for every term and every environment with the guards of the repaired code and is refuted for the pinned guards
(no float guard in removeIncDec, literals read base 10). Every enumerated term is rendered as a Go function, analysed by the real
checker, and the original and the REAL suggestion are compiled and executed on the environment grid: a difference in output is a
violation (the toolchain is the oracle and also validates the model's evaluation). The rewrite rules of the rule groups (assignOp,
emptyStringTest, stringXbytes, unslice, switchTrue, valSwap, wrapperFunc, yodaStyleExpr, stringsCompare, redundantSprint,
timeExprSimplify, underef, unlambda, newDeref, equalFold, stringConcatSimplify ...) are exercised by executable templates with
pure / impure / float / string / []byte / error operands and executed the same way.
"""
import json
import os

import vlib
from props import exec_common as ex

ECFG = """SPECIFICATION Spec
CONSTANTS
  IncDecFloatGuard = %s
  DecimalOnly = %s
  Depth = %d
INVARIANTS Preserves
"""


def render_arith(a):
    k = a["k"]
    if k == "var":
        return a["n"]
    if k == "lit":
        return a["l"]["spell"] if a["l"]["spell"] != "dec" else str(a["l"]["val"])
    if k == "add1":
        return render_arith(a["a"]) + "+1"
    if k == "sub1":
        return render_arith(a["a"]) + "-1"
    raise ValueError(a)


def render(e, top=True):
    k = e["k"]
    if k == "cmp":
        return "%s %s %s" % (render_arith(e["a"]), e["op"], render_arith(e["b"]))
    if k == "not":
        return "!(%s)" % render(e["e"], False)
    if k == "and":
        return "%s && %s" % (render(e["e"], False), render(e["f"], False))
    if k == "or":
        return "%s || %s" % (render(e["e"], False), render(e["f"], False))
    raise ValueError(e)


def has_float(e):
    s = json.dumps(e)
    return '"p"' in s or '"q"' in s


def rule_templates():
    T, E = ex.Template, ex.expr_template
    I2 = [("x", "int"), ("y", "int")]
    F2 = [("p", "float64"), ("q", "float64")]
    S2 = [("s", "string"), ("t", "string")]
    ts = []
    n = [0]

    def add(params, expr=None, body=None, tag="r"):
        n[0] += 1
        name = "%s%03d" % (tag, n[0])
        ts.append(E(name, params, expr) if expr is not None else T(name, params, body))

    # assignOp (statement rewrites): pure, float, string, impure index, pointer
    for stmt in ("x = x + 2", "x = x - y", "x = x * y", "x = x << 1", "x = x &^ y", "x = x % 3", "x = x | y", "x = y + x", "x = 2 * x", "x = y - x", "x = y / (x | 1)"):
        add(I2, body="\t%s\n\treturn fmt.Sprint(x, y, fx())" % stmt)
    add(F2, body="\tp = p - 1.5\n\tq = q * p\n\treturn fmt.Sprint(p, q, fx())")
    add(S2, body="\ts = s + t\n\treturn fmt.Sprint(s, fx())")
    add(S2, body="\ts = t + s\n\treturn fmt.Sprint(s, fx())")
    add(S2, body="\ts = t + s + t\n\treturn fmt.Sprint(s, fx())")
    add(F2, body="\tp = q + p\n\tq = 2 * q\n\treturn fmt.Sprint(p, q, fx())")
    add([("a", "Str"), ("b", "Str")], expr="fmt.Sprint(a)")
    add([("a", "Str"), ("b", "Str")], expr='fmt.Sprintf("%s", a)')
    add([("a", "Str")], body="\tvar out string = fmt.Sprint(a)\n\treturn out + fx()")
    add(I2, body="\txs := []int{1, 2, 3}\n\txs[g()%3] = xs[g()%3] + 1\n\treturn fmt.Sprint(xs, fx())")
    add([("ip", "*int")], body="\t*ip = *ip + 1\n\treturn fmt.Sprint(*ip, fx())")
    add([("c", "Code")], expr='fmt.Sprint(c) + "x"')
    add([("c", "Code")], expr="len(fmt.Sprintf(\"%s\", c))")
    add([("c", "Code")], expr='strings.ToUpper(fmt.Sprintf("%v", c))')
    add([("c", "Code")], expr="fmt.Sprint(c)")
    add([("c", "Code")], expr='fmt.Sprintf("%s", c)')
    add([("c", "Code")], expr='fmt.Sprintf("%v", c)')
    # boolean combinations over floats (NaN) and over defined float types
    for e in ("p < q || p > q", "p > q || p < q", "p < q || p == q", "p > q || p == q", "!(p < q)", "!(p == q)", "p < q && p > q", "p <= q && p >= q"):
        add(F2, expr=e)
    for e in ("a < b || a > b", "!(a < b)", "a+1 > b", "a > 0 && a <= 1"):
        add([("a", "Fl"), ("b", "Fl")], expr=e)
    # boolean expressions nested in function literals inside boolean expressions
    for e in ("!okf(func() bool { return !(p < q) })", "okf(func() bool { return !(p == q) }) && true", "!okf(func() bool { return p+1 > q })",
              "!okf(func() bool { return !okf(func() bool { return !(p <= q) }) })"):
        add(F2, expr=e)
    add(I2, expr="!okf(func() bool { return !(x < y) })")
    # stringsCompare with the constant on the left
    for e in ("0 == strings.Compare(s, t)", "0 < strings.Compare(s, t)", "0 > strings.Compare(s, t)", "-1 == strings.Compare(s, t)", "1 == strings.Compare(s, t)",
              "0 != strings.Compare(s, t)", "0 <= strings.Compare(s, t)", "strings.Compare(s, t) >= 0", "strings.Compare(s, t) <= 0"):
        add(S2, expr=e)
    # emptyStringTest / sloppyLen
    for e in ("len(s) == 0", "len(s) != 0", "len(s) > 0", "len(s) >= 1", "len(s) < 1", "len(s) <= 0", "len(gs()) == 0", "len(s+t) == 0"):
        add(S2, expr=e)
    # stringXbytes
    add([("b", "[]byte"), ("s", "string")], body="\tdst := make([]byte, 4)\n\tn := copy(dst, []byte(s))\n\treturn fmt.Sprint(n, dst, fx())")
    for e in ("string(b) == string(c)", "string(b) != string(c)", "string(b) == s"):
        add([("b", "[]byte"), ("c", "[]byte"), ("s", "string")], expr=e)
    # unslice
    for e in ("xs[:]", "len(xs[:])", "s[:]", "b[:]", "xs[:][:]"):
        add([("xs", "[]int"), ("s", "string"), ("b", "[]byte")], expr=e)
    # switchTrue
    add(I2, body="\tswitch true {\n\tcase x > 1:\n\t\treturn \"a\" + fx()\n\tcase y > 1:\n\t\treturn \"b\" + fx()\n\t}\n\treturn \"c\" + fx()")
    # valSwap, pure and through impure indices
    add(I2, body="\ttmp := x\n\tx = y\n\ty = tmp\n\treturn fmt.Sprint(x, y, fx())")
    add(I2, body="\ta := []int{1, 2, 3, 4}\n\ttmp := a[x&3]\n\ta[x&3] = a[y&3]\n\ta[y&3] = tmp\n\treturn fmt.Sprint(a, fx())")
    add(I2, body="\ta := []int{1, 2, 3, 4}\n\ttmp := a[g()&3]\n\ta[g()&3] = a[0]\n\ta[0] = tmp\n\treturn fmt.Sprint(a, fx())")
    # wrapperFunc
    for e in ('strings.SplitN(s, t, -1)', 'strings.Replace(s, "a", t, -1)', 'strings.Map(unicode.ToUpper, s)', 'strings.Map(unicode.ToLower, s)',
              'bytes.Replace([]byte(s), []byte("a"), []byte(t), -1)', 'strings.Index(s, t) >= 0', 'strings.Index(s, t) != -1', 'strings.Index(s, t) == -1',
              'strings.IndexRune(s, 97) >= 0', 'strings.IndexAny(s, t) >= 0', 'bytes.Index([]byte(s), []byte(t)) >= 0'):
        add(S2, expr=e)
    # strings.Cut idioms (statement level), with an unrelated statement in between
    add(S2, body="\ti := strings.Index(s, \"=\")\n\tif i == -1 {\n\t\treturn s + fx()\n\t}\n\tk, v := s[:i], s[i+1:]\n\treturn fmt.Sprint(k, \"|\", v, fx())")
    add(S2, body="\tvar k, v string\n\ti := strings.Index(s, \"=\")\n\tmarker(1)\n\tk, v = s[:i+len(t)*0], s[i+1:]\n\treturn fmt.Sprint(k, \"|\", v, fx())")
    add(S2, body="\tvar k, v string\n\tif i := strings.Index(s, \"=\"); i != -1 {\n\t\tk, v = s[:i], s[i+1:]\n\t}\n\treturn fmt.Sprint(k, \"|\", v, fx())")
    # yodaStyleExpr
    for e in ("0 == x", "10 < x", "1 != y", "0 == g()", '"" == s', "nil == ip"):
        add([("x", "int"), ("y", "int"), ("s", "string"), ("ip", "*int")], expr=e)
    # stringsCompare
    for e in ("strings.Compare(s, t) == 0", "strings.Compare(s, t) < 0", "strings.Compare(s, t) > 0", "strings.Compare(s, t) == -1",
              "strings.Compare(s, t) == 1", "strings.Compare(gs(), gs()) == 0", "strings.Compare(s, t) != 0"):
        add(S2, expr=e)
    # redundantSprint
    add([("s", "string")], expr="fmt.Sprint(s)")
    add([("s", "string")], expr='fmt.Sprintf("%s", s)')
    add([("e", "error")], expr="fmt.Sprint(e)")
    add([("st", "fmt.Stringer")], expr="fmt.Sprint(st)")
    add([("e", "error")], expr='fmt.Sprintf("%v", e)')
    add([("t", "*T")], expr="fmt.Sprint(t)")
    # timeExprSimplify
    add([("tm", "time.Time")], expr="tm.Unix() / 1000")
    add([("tm", "time.Time")], expr="tm.UnixNano() * 1000")
    add([("tm", "time.Time")], expr="tm.UnixNano() / 1000000")
    add([("tm", "time.Time")], expr="tm.UnixNano() / 1e6")
    # underef
    for e in ("(*t).x", "(*t).arr[0]", "(*t).get()"):
        add([("t", "*T")], expr=e)
    add(I2, body="\tarr := [3]int{x, y, 7}\n\tpa := &arr\n\treturn fmt.Sprint((*pa)[1], fx())")
    # unlambda
    add(I2, body="\tf := func(v int) int { return double(v) }\n\treturn fmt.Sprint(f(x), fx())")
    add(I2, body="\tf := func() int { return g() }\n\treturn fmt.Sprint(f(), f(), fx())")
    # newDeref
    for e in ("*new(int)", "*new(string)", "*new(float64)", "*new(bool)", "*new([]int) == nil", "*new(complex128)", "*new([2]int)", "*new(T)"):
        add([], expr=e)
    # equalFold, stringConcatSimplify
    for e in ("strings.ToLower(s) == strings.ToLower(t)", "strings.ToUpper(s) != strings.ToUpper(t)", 'strings.ToLower(s) == "a"',
              'strings.Join([]string{s, t}, "")', 'strings.Join([]string{s, t}, "_")', 'strings.Join([]string{s, t, s}, "")'):
        add(S2, expr=e)
    # badCond / dupSubExpr style claims are C12's business
    return ts


def run(ctx):
    thorough = ctx.tier == "thorough"
    depth = 2 if thorough else 1
    design = {}
    r = ctx.tlc("Exprs", cfg_text=ECFG % ("TRUE", "FALSE", depth), workers=8, timeout=3000, dump="exprs", heap="12g", expect="ok")
    design["terms"] = r.distinct
    r2 = ctx.tlc("Exprs", cfg_text=ECFG % ("FALSE", "TRUE", 1), workers=4, timeout=900, expect="violation")
    design["whatif_no_float_guard_base10"] = r2.violated
    states = vlib.parse_dump(ctx.spec_path("exprs.dump"))
    if thorough and len(states) > 12000:
        # keep every term the model rewrites, sample the rest
        changed = [s for s in states if s["pred"] != s["e"]]
        same = [s for s in states if s["pred"] == s["e"]]
        ctx.rng.shuffle(same)
        states = changed + same[:3000]

    templates = []
    term_of = {}
    named_of = {}
    for i, s in enumerate(states):
        name = "b%05d" % i
        params = [("p", "float64"), ("q", "float64")] if has_float(s["e"]) else [("x", "int"), ("y", "int")]
        templates.append(ex.expr_template(name, params, render(s["e"])))
        term_of[name] = s
        if has_float(s["e"]) and s["pred"] != s["e"] or (has_float(s["e"]) and i % 7 == 0):
            # the same term over a DEFINED float type (type Fl float64): float-ness is a property of the underlying type
            nname = "n%05d" % i
            templates.append(ex.expr_template(nname, [("p", "Fl"), ("q", "Fl")], render(s["e"])))
            named_of[nname] = s
    rules = rule_templates()
    templates += rules
    d = os.path.join(ctx.scratch, "c10gen")
    ex.write_package(d, "c10gen", templates)
    res = ex.run_fixes(ctx, d, tag="c10")
    sug = [s for s in res["suggestions"] if s.get("located")]
    if len([s for s in sug if s["checker"] == "boolExprSimplify"]) < 50 or len({s["checker"] for s in sug}) < 10:
        raise vlib.Infra("too few suggestions on the generated templates: %d from %s" % (len(sug), sorted({s["checker"] for s in sug})))
    diffs, runs = ex.differential(ctx, templates, sug, tag="c10diff")

    # code ~ Impl: the real suggestion vs the model's prediction (drift only), and model evaluation vs toolchain
    drift = 0
    real_for = {}
    for s in sug:
        if s["checker"] == "boolExprSimplify" and s.get("func") in term_of:
            real_for[s["func"]] = s
    differing = {dd["func"] for dd in diffs}
    for name, st in term_of.items():
        want = render(st["pred"]) if st["pred"] != st["e"] else None
        got = real_for.get(name)
        same_text = (got is None and want is None) or (got is not None and want is not None and "".join(got["repl"].split()) == "".join(want.split()))
        if not same_text:
            drift += 1
        elif got is not None and st["ok"] and name in differing:
            raise vlib.Infra("Exprs.tla says the rewrite of %s preserves its value but the compiled program differs: the model's evaluation is wrong" % render(st["e"]))

    ptypes = {t.name: ",".join(pt for _, pt in t.params) for t in templates}
    seen = set()
    for dd in diffs:
        dd["ptypes"] = ptypes.get(dd["func"], "")
        key = (dd["func"], dd["k"])
        if key in seen:
            continue
        seen.add(key)
        cls = classify(dd, term_of)
        ctx.fail("BehaviourChanged %s %s" % (dd["checker"], cls), "%s: `%s` changes behaviour for %s: original %s, rewritten %s"
                 % (dd["checker"], dd["text"][:160], dd["inputs"], dd["orig"][:80], dd["fixed"][:80]), {"diff": dd})
    st, tr = vlib.tlc_states_total(ctx)
    per = {}
    for s in sug:
        per[s["checker"]] = per.get(s["checker"], 0) + 1
    cov = {
        "states": st, "transitions": tr, "traces_validated_against_impl": len(sug),
        "terms_from_tlc": len(states), "rule_templates": len(rules), "suggestions_executed": len(sug), "executions": runs,
        "suggestions_per_checker": per, "drift_model_vs_code": drift, "design": design, "exhaustive": not thorough,
        "samples": [{"term": render(states[0]["e"])}, {"suggestion": sug[0]["text"]}],
    }
    return ctx.finish("model_checking", cov, ["integer grid without overflow; floats in half units and NaN; literals 1 2 010 011 0x2",
                                              "suggestions are applied textually at the flagged node; fixed variants that do not type-check are C09's business"])


def classify(dd, term_of):
    if dd["checker"] == "boolExprSimplify" and dd["func"] in term_of:
        e = term_of[dd["func"]]["e"]
        txt = json.dumps(e)
        if has_float(e):
            return "float-incdec"
        if '"010"' in txt or '"011"' in txt or '"0x2"' in txt:
            return "non-decimal-literal"
        return "int"
    if dd["checker"] == "timeExprSimplify":
        return "unit " + ("UnixNano*1000" if "UnixNano() * 1000" in dd["text"] else "Unix/1000" if "Unix() / 1000" in dd["text"] else "other")
    kinds = sorted({pt.split(".")[-1] for pt in dd.get("ptypes", "").split(",") if pt in ("fmt.Stringer", "error", "string", "float64", "[]byte", "*T", "*int")})
    nil = "nil-input" if "<nil>" in dd["inputs"] or "=nil" in dd["inputs"] else "non-nil"
    return "rule %s %s" % ("+".join(kinds) or "other", nil)
