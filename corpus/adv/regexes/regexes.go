// Package regexes: constant patterns that Go's regexp rejects or that are unusual but constant (checkers parse them all).
package regexes

import "regexp"

func compile(p string) { _, _ = regexp.Compile(p) }

var (
	_, _ = regexp.Compile(`(?iü)straße`)
	_, _ = regexp.Compile(`(?i-é:café)`)
	_, _ = regexp.Compile("(?\xff)x")
	_, _ = regexp.Compile("\xff\xfe")
	_, _ = regexp.Compile(`(?`)
	_, _ = regexp.Compile(`(?P<`)
	_, _ = regexp.Compile(`[`)
	_, _ = regexp.Compile(`[]`)
	_, _ = regexp.Compile(`[^]`)
	_, _ = regexp.Compile(`\`)
	_, _ = regexp.Compile(`\p`)
	_, _ = regexp.Compile(`\p{`)
	_, _ = regexp.Compile(`\x`)
	_, _ = regexp.Compile(`\x{`)
	_, _ = regexp.Compile(`\Q`)
	_, _ = regexp.Compile(`a{`)
	_, _ = regexp.Compile(`a{1`)
	_, _ = regexp.Compile(`a{1,`)
	_, _ = regexp.Compile(`a{99999999999}`)
	_, _ = regexp.Compile(`a{2,1}`)
	_, _ = regexp.Compile(`(?i)(?-i)(?s)(?-s)(?m)(?U)a`)
	_, _ = regexp.Compile(`(?i:(?-i:(?s:.)))`)
	_, _ = regexp.Compile(`(?#comment)a`)
	_, _ = regexp.Compile(`(?=a)(?!b)(?<=c)(?<!d)`)
	_, _ = regexp.Compile(`(?>a)`)
	_, _ = regexp.Compile(`a++`)
	_, _ = regexp.Compile(`a**`)
	_, _ = regexp.Compile(`**`)
	_, _ = regexp.Compile(`|`)
	_, _ = regexp.Compile(`||`)
	_, _ = regexp.Compile(`()`)
	_, _ = regexp.Compile(`(?:)`)
	_, _ = regexp.Compile(`(?P<n>)`)
	_, _ = regexp.Compile(`[[:alpha:]`)
	_, _ = regexp.Compile(`[[:nope:]]`)
	_, _ = regexp.Compile(`[a-\d]`)
	_, _ = regexp.Compile(`[\d-z]`)
	_, _ = regexp.Compile(`[z-a]`)
	_, _ = regexp.Compile(`^*`)
	_, _ = regexp.Compile(`$+`)
	_, _ = regexp.Compile(`\b\B\A\z\Z\G`)
	_, _ = regexp.Compile(`\1\2\k<n>`)
	_, _ = regexp.Compile(`日本語[日-語]+`)
	_, _ = regexp.Compile(``)
)

const empty = ""

var _ = regexp.MustCompile(empty + `x` + empty)
