"""Analyzer.tla design runs and recorded / race runs of the real analyzer through the x/tools driver (C04, C19, C08)."""
import json
import os

import vlib

ACFG = """SPECIFICATION Spec
CONSTANTS
  Passes = {%s}
  InitFails = %s
  LatchSkips = %s
  UnlockAlways = TRUE
INVARIANTS %s
"""
ALIVE = """SPECIFICATION LiveSpec
CONSTANTS
  Passes = {%s}
  InitFails = %s
  LatchSkips = TRUE
  UnlockAlways = %s
PROPERTIES AllReturn
"""
AINV = "NoPanic CfgOrErr NoPartial NoParamRace WrittenOnce MutexOK ErrReportedOnce"


def design(ctx, passes=3):
    ps = ", ".join(str(i) for i in range(1, passes + 1))
    out = {}
    r = ctx.tlc("Analyzer", cfg_text=ACFG % (ps, "FALSE", "TRUE", AINV), workers=4, timeout=300, expect="ok")
    out["initOK"] = r.distinct
    r = ctx.tlc("Analyzer", cfg_text=ACFG % (ps, "TRUE", "TRUE", AINV), workers=4, timeout=300, expect="ok")
    out["initFails_latchSkips"] = r.distinct
    r = ctx.tlc("Analyzer", cfg_text=ACFG % (ps, "TRUE", "FALSE", AINV), workers=4, timeout=300, expect="violation")
    out["whatif_latchReturnsNeither"] = r.violated
    # liveness: every pass returns; a latch path that keeps the mutex blocks every later pass
    for fails in ("FALSE", "TRUE"):
        r = ctx.tlc("Analyzer", cfg_text=ALIVE % (ps, fails, "TRUE"), workers=4, timeout=300, expect="ok")
        out["liveness_initFails_%s" % fails] = r.distinct
    out["whatif_latchKeepsMutex"] = ctx.tlc("Analyzer", cfg_text=ALIVE % (ps, "TRUE", "FALSE"), workers=4, timeout=300, expect="violation").violated
    return out


def analyze(ctx, wdir, flags="", sequential=False, trace=None, race=False, repeat=1, init_embedded=False, patterns="./...", tests=True):
    outp = ctx.path("an", "out_%d.json" % len(os.listdir(os.path.dirname(ctx.path("an", "x")))))
    args = ["analyze", "-dir", wdir, "-patterns", patterns, "-out", outp, "-repeat", str(repeat)]
    if flags:
        args += ["-flags", flags]
    if sequential:
        args += ["-sequential"]
    if trace:
        args += ["-trace", trace]
    if init_embedded:
        args += ["-init-embedded"]
    if not tests:
        args += ["-tests=false"]
    r = ctx.run_vh(args, race=race, check=False, env={"GORACE": "halt_on_error=0"}, timeout=1800)
    res = json.load(open(outp)) if os.path.exists(outp) else None
    return r, res


def concurrent_runs(ctx, w, thorough):
    """C04: parallel passes vs sequential passes (diagnostics equal, no race report), recorded run validated by TraceAnalyzer."""
    out = {"traces": 0, "events": 0, "race_runs": 0}
    tf = ctx.spec_path("an_par.ndjson")
    r, par = analyze(ctx, w["dir"], flags="enable-all=true", trace=tf)
    r2, seq = analyze(ctx, w["dir"], flags="enable-all=true", sequential=True)
    if par is None or seq is None:
        raise vlib.Infra("analyzer run failed: %s %s" % (r.stderr[-1500:], r2.stderr[-1500:]))
    dp, ds = par["runs"][0].get("diags"), seq["runs"][0].get("diags")
    if par["runs"][0].get("panic") or seq["runs"][0].get("panic"):
        ctx.fail("AnalyzerPanic", "analyzer panicked: %s" % (par["runs"][0].get("panic") or seq["runs"][0].get("panic")), {})
    elif dp != ds:
        ctx.fail("AnalyzerParallelDiffers", "diagnostics of parallel passes differ from sequential passes (%d vs %d)" % (len(dp or []), len(ds or [])), {})
    if not ds:
        raise vlib.Infra("analyzer produced no diagnostics on the workspace")
    out["diagnostics"] = len(ds)
    ok, bad, st = ctx.validate_trace("TraceAnalyzer", tf, chunks=1, env={"INITFAILS": "0"})
    n = sum(1 for _ in open(tf))
    out["traces"] += 1
    out["events"] += n
    if not ok:
        line = open(tf).read().splitlines()[bad - 1] if bad and bad <= n else "<end of trace>"
        ctx.fail("AnalyzerTraceRejected", "TraceAnalyzer rejects the recorded parallel run at line %s: %s" % (bad, line), {"line": bad, "event": line})
    # race detector: parallel passes, no recorder
    for k in range(2 if thorough else 1):
        rr, res = analyze(ctx, w["dir"], flags="enable-all=true", race=True, repeat=12)
        out["race_runs"] += 1
        if "DATA RACE" in rr.stderr:
            i = rr.stderr.index("DATA RACE")
            ctx.fail("DataRace analyzer", "race detector report with parallel analyzer passes: %s" % rr.stderr[i:i + 1500], {})
        elif res is None:
            raise vlib.Infra("race-built analyzer run failed: %s" % rr.stderr[-1500:])
        elif res["runs"][0].get("diags") != ds:
            ctx.fail("AnalyzerParallelDiffers race-build", "race-built parallel run differs from sequential run", {})
    return out
