----------------------------- MODULE LifecycleMC -----------------------------
(* Exhaustive model of Lifecycle for small constants: 2 checkers (one of them  *)
(* a tree rewriter with scratch state), 3 files in 2 packages (f3 is a file    *)
(* that leaves residue: e.g. an unfinished if-else chain, a SkipChilds flag,   *)
(* a populated astSet).                                                        *)
EXTENDS Lifecycle

MCCheckers == {"c1", "c2"}
MCPkgs == {"p", "q"}
MCFiles == {"f1", "f2", "f3"}
MCPkgOf == [f \in MCFiles |-> IF f = "f3" THEN "q" ELSE "p"]
MCDiag == [x \in MCCheckers \X MCFiles |->
             IF x[2] = "f1" THEN << <<x[1], "w1">> >>
             ELSE IF x[2] = "f2" THEN <<>>
             ELSE << <<x[1], "w3a">>, <<x[1], "w3b">> >>]
\* c1 keeps scratch between statements/functions; after f3 something is left that would alter f1's result
MCResidue == [x \in MCCheckers \X MCFiles |-> IF x[1] = "c1" /\ x[2] = "f3" THEN {"t"} ELSE {}]
MCSensitive == [x \in MCCheckers \X MCFiles |-> IF x[1] = "c1" /\ x[2] = "f1" THEN {"t"} ELSE {}]
MCRewriters == {"c2"}
MCHasImports == [f \in MCFiles |-> f # "f2"]
=============================================================================
