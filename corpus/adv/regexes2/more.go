// Package regexes2: a second package with constant patterns (front-ends that analyse packages concurrently see both at once).
package regexes2

import "regexp"

var (
	_ = regexp.MustCompile(`(?:a|b|c)   [a-z][a-z]*`)
	_ = regexp.MustCompile(`^\s*[0-9]{1,}\s*$`)
	_ = regexp.MustCompile(`[[:digit:]][[:digit:]]*`)
	_ = regexp.MustCompile(`(?i)(?i)hello`)
	_ = regexp.MustCompile(`[aab]`)
	_ = regexp.MustCompile(`x{1}y{0,1}z{1,}`)
	_ = regexp.MustCompile(`^(https?)://[^\s]+$`)
	_ = regexp.MustCompile(`\d\d\d-\d\d\d\d`)
	_ = regexp.MustCompile(`(foo|bar|baz){2}`)
	_ = regexp.MustCompile(`a|b|c|d|e`)
)
