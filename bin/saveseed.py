#!/usr/bin/env python3
"""saveseed.py <Cxx> <detected-by: 'mut1=C12,C20 mut2=C12 ...'>: copy confirmed seeded changes from the scratch area into /verif/seeded."""
import json, os, shutil, sys
pid = sys.argv[1]
det = dict(a.split("=") for a in sys.argv[2:])
conf = json.load(open("/tmp/mut/%s.out/confirm.json" % pid))
for name, c in sorted(conf.items()):
    n = name[-1]
    src = "/tmp/mut/%s.out/%s" % (pid, name)
    dst = "/verif/seeded/%s-%s" % (pid, n)
    if os.path.isdir(dst):
        shutil.rmtree(dst)
    shutil.copytree(src, dst)
    readme = open(os.path.join(src, "README.md")).read()
    title = readme.splitlines()[0].lstrip("# ").strip()
    json.dump({"property": pid, "id": "%s-%s" % (pid, n), "title": title,
               "source": "independent sub-agent given only the property text and a scratch worktree",
               "confirmed": c,
               "confirmed_how": "/tmp/mut/confirm.py in the scratch worktree: demo passes on the clean tree, patch applies and builds (also with -tags verif), demo fails with the patch, full test suite passes with the patch",
               "detected_by": det.get(name, "").split(",") if det.get(name) else [],
               "patch": "patch.diff"}, open(os.path.join(dst, "meta.json"), "w"), indent=1)
    print(dst, c, det.get(name))
