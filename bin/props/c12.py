"""C12 - claims of a constant outcome are true of the analysed code.

Spec: TypeSwitch.tla - type-switch dispatch over a universe of concrete types (value and pointer receivers), interfaces and nil, and
the caseOrder claim ("case X can never be reached where it stands"): ClaimTrue holds for the sound implements test and is refuted for
the two what-ifs (untyped nil implements the empty interface; pointer-receiver methods counted for the value type). Every case list
(392) is rendered as a Go type switch, analysed by the real caseOrder checker and EXECUTED on every dynamic value: the model's
dispatch must agree with the Go runtime (else undecided) and a flagged case must never be taken. The other constant-outcome claims
(sloppyLen always true/false, badCond always false, offBy1 always panics, nilValReturn always nil, dupSubExpr / dupArg same value)
are exercised by executable templates with pure, impure, float/NaN, shadowed and lazily initialised operands: the claim parsed from
the real diagnostic must hold in every execution on the input grid.
"""
import json
import os
import re
import subprocess

import vlib
from props import analyzer_common as ac
from props import exec_common as ex

TCFG = """SPECIFICATION Spec
CONSTANTS
  MaxCases = 3
  NilImplementsEmpty = %s
  PtrRecvCounts = %s
INVARIANTS ClaimTrue
"""
GOTYPE = {"T": "T1", "U": "U1", "P": "P1", "PP": "*P1", "A": "IA", "B": "IB", "any": "interface{}", "nil": "nil"}
VALUE = {"T": "T1{}", "U": "U1{}", "P": "P1{}", "PP": "&P1{}", "nilvalue": "nil"}
TS_PRELUDE = """package %s

type IA interface{ A() }

type IB interface {
	A()
	B()
}

type T1 struct{}

func (T1) A() {}

type U1 struct{}

func (U1) A() {}
func (U1) B() {}

type P1 struct{}

func (*P1) A() {}

"""


def run(ctx):
    thorough = ctx.tier == "thorough"
    design = {}
    r = ctx.tlc("TypeSwitch", cfg_text=TCFG % ("FALSE", "FALSE"), workers=4, timeout=300, dump="tsw", expect="ok")
    design["case_lists"] = r.distinct
    for name, c in (("nilImplementsEmpty", ("TRUE", "FALSE")), ("ptrRecvCounts", ("FALSE", "TRUE"))):
        r2 = ctx.tlc("TypeSwitch", cfg_text=TCFG % c, workers=2, timeout=300, expect="violation")
        design["whatif_" + name] = r2.violated
    states = vlib.parse_dump(ctx.spec_path("tsw.dump"))
    ts = type_switches(ctx, states)
    claims = claim_templates(ctx)
    # claims replayed for another build variant of the package (AnalyzerWork.tla): caseOrder with the method sets of `p [p.test]`
    variants = ac.variant_runs(ctx, runs=3 if thorough else 2, flags="enable=caseOrder,sloppyLen,badCond,offBy1,nilValReturn,dupSubExpr,dupArg,redundantSprint,preferStringWriter;disable=")
    st, tr = vlib.tlc_states_total(ctx)
    cov = {
        "states": st, "transitions": tr, "traces_validated_against_impl": ts["switches"] + claims["templates"],
        "type_switches": ts, "claim_templates": claims, "build_variants": variants, "design": design, "exhaustive": True,
        "samples": [{"cases": states[0]["cases"], "dispatch": states[0]["dispatch"]}],
    }
    return ctx.finish("model_checking", cov, ["universe of 4 concrete types, 3 interfaces and nil; case lists of length <= 3",
                                              "claims are judged by executing the analysed code on the input grid"])


def type_switches(ctx, states):
    d = os.path.join(ctx.scratch, "c12ts")
    os.makedirs(os.path.join(d, "sw"))
    open(os.path.join(d, "go.mod"), "w").write("module example.com/c12ts\n\ngo 1.21\n")
    body = [TS_PRELUDE % "sw"]
    line_of = {}
    lines = body[0].count("\n") + 1
    for i, s in enumerate(states):
        body.append("func sw%d(v interface{}) int {\n\tswitch v.(type) {\n" % i)
        lines += 2
        for j, ct in enumerate(s["cases"], start=1):
            line_of[lines] = (i, j)
            body.append("\tcase %s:\n\t\treturn %d\n" % (GOTYPE[ct], j))
            lines += 2
        body.append("\t}\n\treturn 0\n}\n\n")
        lines += 4
    open(os.path.join(d, "sw", "sw.go"), "w").write("".join(body))
    outp = ctx.path("c12_ts.json")
    ctx.run_vh(["direct", "-dir", d, "-checkers", "caseOrder", "-out", outp])
    warns = json.load(open(outp))["warnings"]
    flagged = {}
    for w in warns:
        if w["line"] in line_of:
            i, j = line_of[w["line"]]
            flagged.setdefault(i, {})[j] = w["text"]
    # the same file through the real command after a package that does not type-check (one long-lived checker instance sees an
    # interface case followed by an unresolvable case type first): its claims are judged by the same executions
    os.makedirs(os.path.join(d, "aaa"))
    open(os.path.join(d, "aaa", "aaa.go"), "w").write(
        "package aaa\n\ntype IA interface{ A() }\n\ntype IB interface {\n\tA()\n\tB()\n}\n\n"
        "func first(v interface{}) int {\n\tswitch v.(type) {\n\tcase IA:\n\t\treturn 1\n\tcase IB:\n\t\treturn 2\n\tcase missingType:\n\t\treturn 3\n\t}\n\treturn 0\n}\n")
    binp = ctx.build_repo_bin("cmd/go-critic")
    r = subprocess.run([binp, "check", "-enable=caseOrder", "./aaa", "./sw"], cwd=d, env=vlib.goenv(), capture_output=True, text=True, timeout=600)
    cli_lines = 0
    for l in (r.stderr + r.stdout).splitlines():
        m = re.match(r"^\S*sw/sw\.go:(\d+):\d+: caseOrder: (.*)$", l.strip())
        if m and int(m.group(1)) in line_of:
            cli_lines += 1
            i, j = line_of[int(m.group(1))]
            flagged.setdefault(i, {}).setdefault(j, m.group(2) + " [go-critic check ./aaa ./sw]")
    if cli_lines == 0:
        raise vlib.Infra("the command reported no caseOrder diagnostics on the generated switches: " + (r.stderr + r.stdout)[-500:])
    # execute every switch on every value
    m = os.path.join(d, "run")
    os.makedirs(m)
    src = open(os.path.join(d, "sw", "sw.go")).read().replace("package sw", "package main", 1)
    main = ["\nfunc main() {\n"]
    for i, s in enumerate(states):
        for v in ("T", "U", "P", "PP", "nilvalue"):
            main.append("\tprintln(%d, \"%s\", sw%d(%s))\n" % (i, v, i, VALUE[v]))
    main.append("}\n")
    open(os.path.join(m, "main.go"), "w").write(src + "".join(main))
    r = subprocess.run(["go", "run", "./run"], cwd=d, env=vlib.goenv(), capture_output=True, text=True, timeout=900)
    if r.returncode != 0:
        raise vlib.Infra("type-switch program failed: " + r.stderr[-1500:])
    taken = {}
    for l in r.stderr.splitlines():
        a = l.split()
        if len(a) == 3:
            taken.setdefault(int(a[0]), {})[a[1]] = int(a[2])
    drift = 0
    for i, s in enumerate(states):
        for v, want in s["dispatch"].items():
            if taken[i][v] != want:
                raise vlib.Infra("TypeSwitch.tla dispatch disagrees with the Go runtime for cases %s value %s: model %d, runtime %d" % (s["cases"], v, want, taken[i][v]))
        if sorted(flagged.get(i, {})) != sorted(s["flagged"]):
            drift += 1
        for j, text in flagged.get(i, {}).items():
            reach = [v for v, k in taken[i].items() if k == j]
            if reach:
                ct = s["cases"][j - 1]
                ctx.fail("CaseReachable %s-after-%s" % (ct, "+".join(c for c in s["cases"][:j - 1] if c in ("A", "B", "any"))),
                         "caseOrder claims `%s` for `switch v.(type) { %s }` but a %s value takes that case"
                         % (text, "; ".join("case " + GOTYPE[c] for c in s["cases"]), reach[0]), {"cases": s["cases"], "value": reach[0], "text": text})
    return {"switches": len(states), "flagged_cases": sum(len(f) for f in flagged.values()), "executions": 5 * len(states), "drift_model_vs_code": drift}


CLAIMS = [
    # (checker, regexp on the message, kind)
    ("sloppyLen", r"is always true$", "true"),
    ("sloppyLen", r"is always false$", "false"),
    ("badCond", r"condition is always false$", "false"),
    ("badCond", r"condition is always true$", "true"),
    ("offBy1", r"always panics", "panics"),
    ("nilValReturn", r"returned expr is always nil", "true"),
    ("dupSubExpr", r"suspicious identical LHS and RHS", "same"),
    ("dupArg", r"suspicious duplicated args|suspicious method call with the same argument", "same"),
]


def claim_templates(ctx):
    """Each template returns fmt.Sprint(<the subject of the claim>): the condition's value, "ok"/panic for the index expression,
    `ret == nil` for nilValReturn, `lhs == rhs` (operands evaluated like the flagged expression) for dup*."""
    T, E = ex.Template, ex.expr_template
    ts = []
    n = [0]

    def add(params, expr=None, body=None):
        n[0] += 1
        name = "c%03d" % n[0]
        ts.append(E(name, params, expr) if expr is not None else T(name, params, body))
    XS = [("xs", "[]int"), ("s", "string")]
    for e in ("len(xs) >= 0", "len(xs) < 0", "len(s) >= 0", "len(s) < 0", "len(xs) <= 0", "0 <= len(xs)"):
        add(XS, expr=e)
    # shadowed len: the claim is about this program, not about the builtin
    add(XS, body="\tlen := func(a ...interface{}) int { return -1 }\n\treturn fmt.Sprint(len(xs) >= 0, fx())")
    # badCond
    I2 = [("x", "int"), ("y", "int")]
    for e in ("x < -10 && x > 10", "x > 10 && x < -10", "x < 1 && x > 2", "g() < 1 && g() > 2", "x == 1 && x == 2", "x < 1 && y > 2", "x <= 1 && x >= 1",
              "x < 010 && x > 011", "x != 1 || x != 2"):
        add(I2, expr=e)
    # impure operands that really differ between the two evaluations
    for e in ("alt() < 1 && alt() > 2", "alt() == 0 && alt() == 3", "xs[alt()%2] < 1 && xs[alt()%2] > 2"):
        add([("xs", "[]int")], body="\tif len(xs) < 2 {\n\t\txs = []int{0, 3}\n\t}\n\treturn fmt.Sprint(%s, fx())" % e)
    for e in ("p < -1.0 && p > 1.0", "p < q && p > q"):
        add([("p", "float64"), ("q", "float64")], expr=e)
    # offBy1
    add(XS, body="\t_ = xs[len(xs)]\n\treturn \"ok\" + fx()")
    add(XS, body="\t_ = s[len(s)]\n\treturn \"ok\" + fx()")
    add(XS, body="\tys := append(xs, 1)\n\t_ = ys[len(xs)]\n\treturn \"ok\" + fx()")
    add(XS, body="\tm := map[int]int{len(xs): 1}\n\t_ = m[len(m)]\n\treturn \"ok\" + fx()")
    # named map / slice / string types (the rule's type filter must look at the underlying type the right way round)
    add(XS, body="\ttype registry map[int]string\n\tr := registry{0: \"a\"}\n\t_ = r[len(r)]\n\treturn \"ok\" + fx()")
    add(XS, body="\ttype ints []int\n\tys := ints(xs)\n\t_ = ys[len(ys)]\n\treturn \"ok\" + fx()")
    add(XS, body="\ttype text string\n\tt := text(s)\n\t_ = t[len(t)]\n\treturn \"ok\" + fx()")
    add(XS, body="\ttype counts map[string]int\n\tc := counts{s: 1}\n\tok := len(c) >= 0\n\treturn fmt.Sprint(ok, fx())")
    # nilValReturn: the function under analysis is a closure so that its returned value can be observed
    add([("e", "error")], body="\tf := func(err error) error {\n\t\tif err == nil {\n\t\t\treturn err\n\t\t}\n\t\treturn nil\n\t}\n\treturn fmt.Sprint(f(e) == nil, fx())")
    add([("ip", "*int")], body="\tf := func(p *int) *int {\n\t\tif p == nil {\n\t\t\treturn p\n\t\t}\n\t\treturn nil\n\t}\n\treturn fmt.Sprint(f(ip) == nil, fx())")
    add([("xs", "[]int")], body="\tcache := xs\n\tfill := func() { cache = []int{1} }\n\tf := func() []int {\n\t\tif cache == nil {\n\t\t\tfill()\n\t\t\treturn cache\n\t\t}\n\t\treturn nil\n\t}\n\tr := f()\n\treturn fmt.Sprint(r == nil || len(xs) > 0, fx())")
    add([("xs", "[]int")], body="\tcache := xs\n\tf := func() []int {\n\t\tif cache == nil {\n\t\t\tcache = []int{1}\n\t\t\treturn cache\n\t\t}\n\t\treturn nil\n\t}\n\tr := f()\n\treturn fmt.Sprint(r == nil || len(xs) > 0, fx())")
    add([("x", "int")], body="\ta, b := &node{}, &node{next: &node{val: x}}\n\tf := func() *node {\n\t\tif a.next == nil {\n\t\t\treturn b.next\n\t\t}\n\t\treturn nil\n\t}\n\treturn fmt.Sprint(f() == nil, fx())")
    add([("x", "int")], body="\tslots := []*node{nil, {val: x}}\n\ti, j := 0, 1\n\tf := func() *node {\n\t\tif slots[i] == nil {\n\t\t\treturn slots[j]\n\t\t}\n\t\treturn nil\n\t}\n\treturn fmt.Sprint(f() == nil, fx())")
    add([("x", "int")], body="\tn := &node{val: x}\n\tpp := &n\n\tvar q **node\n\tf := func() **node {\n\t\tif q == nil {\n\t\t\treturn pp\n\t\t}\n\t\treturn nil\n\t}\n\treturn fmt.Sprint(f() == nil, fx())")
    add([("x", "int")], body="\ta := &node{}\n\tf := func() *node {\n\t\tif a.next == nil {\n\t\t\treturn a.next\n\t\t}\n\t\treturn a\n\t}\n\treturn fmt.Sprint(f() == nil, fx())")
    # dupSubExpr / dupArg: "same value" = the two operands, evaluated as the expression evaluates them, are equal
    add(I2, body="\ta, b := x, x\n\t_ = x - x\n\treturn fmt.Sprint(a == b, fx())")
    add(I2, body="\ta := g()\n\tb := g()\n\t_ = g() - g()\n\treturn fmt.Sprint(a == b, fx())")
    add([("p", "float64")], body="\t_ = p == p\n\treturn fmt.Sprint(p == p, fx())")
    add([("p", "float64")], body="\tnan := p != p\n\treturn fmt.Sprint(!nan, fx())")
    add([("a", "Fl")], body="\t_ = a == a\n\treturn fmt.Sprint(a == a, fx())")
    add([("a", "Fl")], body="\tnan := a != a\n\treturn fmt.Sprint(!nan, fx())")
    add(I2, body="\txs := []int{1, 2, 3}\n\ti := 0\n\tnext := func() int { i++; return xs[i-1] }\n\ta := next()\n\tb := next()\n\t_ = next() == next()\n\treturn fmt.Sprint(a == b, fx())")
    S2 = [("s", "string"), ("t", "string")]
    add(S2, body="\t_ = strings.Contains(s, s)\n\treturn fmt.Sprint(s == s, fx())")
    add(S2, body="\ta := gs()\n\tb := gs()\n\t_ = strings.Contains(gs(), gs())\n\treturn fmt.Sprint(a == b, fx())")
    add(S2, body="\ta := gs()\n\tb := gs()\n\t_ = strings.EqualFold(gs(), gs())\n\treturn fmt.Sprint(a == b, fx())")
    add(S2, body="\ta := gs()\n\tb := gs()\n\t_ = bytes.Equal([]byte(gs()), []byte(gs()))\n\treturn fmt.Sprint(a == b, fx())")
    add(I2, body="\ta := g()\n\tb := g()\n\t_ = max(g(), g())\n\t_ = min(g(), g())\n\treturn fmt.Sprint(a == b, fx())")
    add(I2, body="\ta := g()\n\tb := g()\n\t_ = cmp.Compare(g(), g())\n\treturn fmt.Sprint(a == b, fx())")
    add(I2, body="\tnext := func() []int { return []int{g()} }\n\ta := next()\n\tb := next()\n\t_ = slices.Equal(next(), next())\n\t_ = slices.Compare(next(), next())\n\treturn fmt.Sprint(slices.Equal(a, b), fx())")
    add(I2, body="\tnext := func() map[int]int { return map[int]int{g(): 1} }\n\ta := next()\n\tb := next()\n\t_ = maps.Equal(next(), next())\n\treturn fmt.Sprint(maps.Equal(a, b), fx())")
    add(I2, body="\t_ = cmp.Compare(x, x)\n\t_ = slices.Equal([]int{x}, []int{x})\n\treturn fmt.Sprint(x == x, fx())")
    d = os.path.join(ctx.scratch, "c12gen")
    ex.write_package(d, "c12gen", ts)
    outp = ctx.path("c12_claims.json")
    ctx.run_vh(["direct", "-dir", d, "-checkers", ",".join(sorted({c[0] for c in CLAIMS})), "-out", outp])
    warns = json.load(open(outp))["warnings"]
    # map warnings to templates by position inside the function (file + line range)
    ranges = template_lines(d, ts)
    claims = []
    for w in warns:
        t = ranges.get((w["file"], w["line"]))
        for chk, rx, kind in CLAIMS:
            if t and w["checker"] == chk and re.search(rx, w["text"]):
                claims.append((t, w, kind))
    if len(claims) < 10:
        raise vlib.Infra("too few constant-outcome claims on the templates: %d" % len(claims))
    results = execute(ctx, ts)
    for t, w, kind in claims:
        outs = results.get(t.name, [])
        bad = None
        for inp, out in outs:
            val = out.split("[")[0].strip()
            if kind in ("true", "false") and not val.startswith(kind):
                bad = (inp, out)
            elif kind == "panics" and not out.startswith("panic"):
                bad = (inp, out)
            elif kind == "same" and not val.startswith("true"):
                bad = (inp, out)
            if bad:
                break
        if bad:
            cls = "shadowed-builtin" if "len := func" in t.body else ("impure-operands" if re.search(r"\b(g|gs|next|fill)\(\)", t.body) else "pure")
            ctx.fail("ClaimFalse %s %s %s" % (w["checker"], kind, cls), "%s claims `%s` but for %s the analysed code yields %s  [%s]"
                     % (w["checker"], w["text"], bad[0], bad[1][:80], t.body.strip().splitlines()[-2][:100] if "\n" in t.body.strip() else t.body.strip()[:100]),
                     {"template": t.source(), "warning": w, "input": bad[0], "output": bad[1]})
    return {"templates": len(ts), "claims": len(claims), "executions": sum(len(v) for v in results.values())}


def template_lines(d, ts):
    """(file, line) -> template, from the generated shards."""
    out = {}
    names = {t.name: t for t in ts}
    for root, _, files in os.walk(d):
        for fn in files:
            if fn != "gen.go":
                continue
            cur = None
            p = os.path.join(root, fn)
            for i, l in enumerate(open(p).read().splitlines(), start=1):
                m = re.match(r"^func (\w+)\(", l)
                if m and m.group(1) in names:
                    cur = names[m.group(1)]
                if l == "}":
                    out[(p, i)] = cur
                    cur = None
                if cur:
                    out[(p, i)] = cur
    return out


def execute(ctx, ts):
    """Run every template on its input grid; returns name -> [(inputs, output)]."""
    d = os.path.dirname(ctx.path("c12run", "go.mod"))
    open(os.path.join(d, "go.mod"), "w").write("module example.com/c12run\n\ngo 1.21\n")
    with open(os.path.join(d, "gen.go"), "w") as f:
        f.write(ex.PRELUDE.replace("PKG", "main") + "\n")
        for t in ts:
            f.write(t.source() + "\n")
    with open(os.path.join(d, "main.go"), "w") as f:
        f.write("package main\n\nimport (\n\t\"errors\"\n\t\"fmt\"\n\t\"math\"\n\t\"time\"\n)\n\nvar (\n\t_ = errors.New\n\t_ = math.NaN\n\t_ = time.Unix\n)\n\nfunc call(f func() string) (out string) {\n\teffects, ctr = nil, 0\n\tdefer func() {\n\t\tif r := recover(); r != nil {\n\t\t\tout = fmt.Sprint(\"panic: \", r)\n\t\t}\n\t}()\n\treturn f()\n}\n\nfunc main() {\n")
        for t in ts:
            indent = "\t"
            names = []
            for (pn, pt) in t.params:
                vs = ex.GRID[pt]
                if pt in ex.MUTABLE:
                    f.write("%sfor _, %s := range []func() %s{%s} {\n" % (indent, pn + "_", pt, ", ".join("func() %s { return %s }" % (pt, v) for v in vs)))
                    names.append(pn + "_()")
                else:
                    f.write("%sfor _, %s := range []%s{%s} {\n" % (indent, pn + "_", pt, ", ".join(vs)))
                    names.append(pn + "_")
                indent += "\t"
            f.write("%sfmt.Printf(\"%%s\\t%%v\\t%%s\\n\", \"%s\", []interface{}{%s}, call(func() string { return %s(%s) }))\n"
                    % (indent, t.name, ", ".join(names), t.name, ", ".join(names)))
            for _ in t.params:
                indent = indent[:-1]
                f.write("%s}\n" % indent)
        f.write("}\n")
    r = subprocess.run(["go", "run", "."], cwd=d, env=vlib.goenv(), capture_output=True, text=True, timeout=900)
    if r.returncode != 0:
        raise vlib.Infra("claim templates do not run: " + r.stderr[-2000:])
    out = {}
    for l in r.stdout.splitlines():
        a = l.split("\t", 2)
        if len(a) == 3:
            out.setdefault(a[0], []).append((a[1], a[2]))
    return out
