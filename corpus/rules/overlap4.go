//go:build ignore

package gorules

import "github.com/quasilyte/go-ruleguard/dsl"

func overlap4(m dsl.Matcher) {
	m.Match(`$x = $x + 1`).Report(`overlap4: increment of $x`)
	m.Match(`len($s) >= 0`).Report(`overlap4: len of $s`)
}
