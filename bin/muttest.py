#!/usr/bin/env python3
"""Development helper: apply a seeded change to /repo, run the given checks (quick tier), undo the change.

usage: muttest.py <patch.diff> <Cxx> [<Cyy> ...]      prints one line per check: DETECTED / MISSED / INFRA
"""
import os
import subprocess
import sys

REPO = os.environ.get("VERIF_REPO", "/repo")


def sh(cmd, **kw):
    return subprocess.run(cmd, shell=True, capture_output=True, text=True, **kw)


def main():
    patch = os.path.abspath(sys.argv[1])
    pids = sys.argv[2:]
    st = sh("git -C %s status --porcelain --untracked-files=no" % REPO).stdout.strip()
    if st:
        print("refusing: /repo has uncommitted changes:\n" + st)
        sys.exit(2)
    regen = "checkers/rulesdata/rulesdata.go" in open(patch).read() and "checkers/rules/rules.go" in open(patch).read()
    r = sh("git -C %s apply %s %s" % (REPO, "--exclude=checkers/rulesdata/rulesdata.go" if regen else "", patch))
    if r.returncode == 0 and regen:
        # the seeded change edits the rule source and ships the regenerated rule data: regenerate on this tree instead
        g = sh("cd %s/checkers && GOFLAGS=-mod=mod GOPROXY=off GOTOOLCHAIN=local go run ./rules/precompile.go -rules ./rules/rules.go -o ./rulesdata/rulesdata.go" % REPO)
        if g.returncode != 0:
            print("regeneration failed", g.stderr[-300:])
    if r.returncode != 0:
        r = sh("cd %s && patch -p1 --no-backup-if-mismatch < %s" % (REPO, patch))
        if r.returncode != 0:
            print("patch does not apply:", r.stdout[-300:], r.stderr[-300:])
            sh("git -C %s reset -q; git -C %s checkout HEAD -- .; find %s -name '*.rej' -o -name '*.orig' | grep -v testdata | xargs rm -f" % (REPO, REPO, REPO))
            sys.exit(2)
    try:
        b = sh("cd %s && GOFLAGS=-mod=mod GOPROXY=off GOSUMDB=off GOTOOLCHAIN=local go build ./... && GOFLAGS=-mod=mod go build -tags verif ./..." % REPO)
        if b.returncode != 0:
            print("mutated tree does not build:", b.stderr[-800:])
            return
        for pid in pids:
            r = sh("cd /verif && python3 bin/check.py %s --tier %s" % (pid, os.environ.get("VERIF_MUT_TIER", "quick")))
            viol = [l for l in r.stdout.splitlines() if l.startswith("VIOLATION") or l.startswith("  what:")]
            if r.returncode == 1 and viol:
                print("%s DETECTED rc=1" % pid)
                for l in viol[:6]:
                    print("    " + l[:400])
            elif r.returncode == 0:
                print("%s MISSED rc=0" % pid)
            else:
                print("%s INFRA rc=%d" % (pid, r.returncode))
                print("    " + "\n    ".join((r.stdout + r.stderr).splitlines()[-8:]))
    finally:
        sh("git -C %s reset -q && git -C %s checkout -- . && git -C %s clean -fdq -- cmd linter checkers docs" % (REPO, REPO, REPO))
        st = sh("git -C %s status --porcelain --untracked-files=no" % REPO).stdout.strip()
        if st:
            print("WARNING: /repo not clean after undo:\n" + st)


if __name__ == "__main__":
    main()
