SPECIFICATION TSpec
INVARIANTS AtMostK TokensOK PrintAfterAll NoCtxWriteDuringCheck ExitIffIssues
POSTCONDITION Accepted
CHECK_DEADLOCK FALSE
VIEW View
