package main

import (
	"encoding/json"
	"flag"
	"os"
	"sort"

	"github.com/go-critic/go-critic/checkers/analyzer"
	"verifharness/hx"
)

func init() {
	commands["registry"] = registryCmd
	commands["selection-analyzer"] = selectionAnalyzer
}

type paramJSON struct {
	Name  string      `json:"name"`
	Value interface{} `json:"value"`
	Usage string      `json:"usage"`
}

type infoJSON struct {
	Name     string      `json:"name"`
	Tags     []string    `json:"tags"`
	Embedded bool        `json:"embedded"`
	Summary  string      `json:"summary"`
	Before   string      `json:"before"`
	After    string      `json:"after"`
	Params   []paramJSON `json:"params"`
}

// registryCmd exports the registry as the CLI sees it (after both registration phases)
// and the names in the analyzer's own snapshot (B-extract).
func registryCmd(args []string) {
	fs := flag.NewFlagSet("registry", flag.ExitOnError)
	out := fs.String("out", "", "output file")
	fs.Parse(args)
	var infos []infoJSON
	for _, in := range hx.Infos() {
		j := infoJSON{Name: in.Name, Tags: in.Tags, Embedded: in.EmbeddedRuleguard, Summary: in.Summary, Before: in.Before, After: in.After}
		for k, p := range in.Params {
			j.Params = append(j.Params, paramJSON{k, p.Value, p.Usage})
		}
		sort.Slice(j.Params, func(a, b int) bool { return j.Params[a].Name < j.Params[b].Name })
		infos = append(infos, j)
	}
	res := map[string]interface{}{"checkers": infos, "analyzer_snapshot": analyzer.VerifRegistered()}
	b, _ := json.MarshalIndent(res, "", " ")
	if *out == "" {
		os.Stdout.Write(b)
		return
	}
	hx.Must(os.WriteFile(*out, b, 0o644))
}

// selectionAnalyzer evaluates the analyzer's real filter routine on flag vectors.
func selectionAnalyzer(args []string) {
	fs := flag.NewFlagSet("selection-analyzer", flag.ExitOnError)
	in := fs.String("in", "", "cases: [{id, flags:{name:value}}]")
	out := fs.String("out", "", "output file")
	fs.Parse(args)
	data, err := os.ReadFile(*in)
	hx.Must(err)
	var cases []struct {
		ID    string
		Flags map[string]string
	}
	hx.Must(json.Unmarshal(data, &cases))
	defaults := map[string]string{}
	analyzer.Analyzer.Flags.VisitAll(func(f *flag.Flag) { defaults[f.Name] = f.DefValue })
	var res []map[string]interface{}
	for _, c := range cases {
		for k, v := range defaults {
			hx.Must(analyzer.Analyzer.Flags.Set(k, v))
		}
		r := map[string]interface{}{"id": c.ID}
		for k, v := range c.Flags {
			if err := analyzer.Analyzer.Flags.Set(k, v); err != nil {
				r["err"] = err.Error()
			}
		}
		r["selected"] = analyzer.VerifFilter()
		res = append(res, r)
	}
	for k, v := range defaults {
		hx.Must(analyzer.Analyzer.Flags.Set(k, v))
	}
	b, _ := json.Marshal(res)
	hx.Must(os.WriteFile(*out, b, 0o644))
}
