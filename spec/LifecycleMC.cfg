SPECIFICATION Spec
CONSTANTS
  Checkers <- MCCheckers
  Pkgs <- MCPkgs
  Files <- MCFiles
  PkgOf <- MCPkgOf
  Diag <- MCDiag
  Residue <- MCResidue
  Sensitive <- MCSensitive
  Rewriters <- MCRewriters
  HasImports <- MCHasImports
  RebuildImports = TRUE
  ResetBuf = TRUE
  ResetScratch = TRUE
  InPlaceInfo = TRUE
  CopiesFirst = TRUE
  MaxHist = 12
INVARIANTS TypeOK HistIndep InputsReadOnly BufEmptyAtBegin FileInPkg InfoIdentityStable CtxImportsCurrent
