package main

import (
	"bufio"
	"encoding/json"
	"flag"
	"fmt"
	"go/ast"
	"go/parser"
	"go/token"
	"go/types"
	"math/rand"
	"os"
	"path/filepath"
	"regexp"
	"runtime"
	"sort"
	"strings"
	"sync"

	"github.com/go-critic/go-critic/linter"
	"golang.org/x/tools/go/packages"
	"verifharness/hx"
)

func init() { commands["locality"] = locality }

var directiveRE = regexp.MustCompile(`^\s*/\*! (.*) \*/`)

type chunk struct {
	text    string
	movable bool // plain function (no receiver)
	name    string
}

type splitFile struct {
	header     string
	chunks     []chunk
	localTypes []string // names of types declared inside function bodies
}

// split cuts a source file into a header (package clause, imports) and one chunk per top-level declaration;
// everything between two declarations (comments, blank lines, /*! expectation */ lines) belongs to the later one.
func split(fset *token.FileSet, src []byte, f *ast.File) splitFile {
	tf := fset.File(f.Pos())
	lineEnd := func(pos token.Pos) int {
		off := tf.Offset(pos)
		for off < len(src) && src[off] != '\n' {
			off++
		}
		if off < len(src) {
			off++
		}
		return off
	}
	headerEnd := lineEnd(f.Name.End())
	var decls []ast.Decl
	for _, d := range f.Decls {
		if g, ok := d.(*ast.GenDecl); ok && g.Tok == token.IMPORT {
			if e := lineEnd(g.End()); e > headerEnd {
				headerEnd = e
			}
			continue
		}
		decls = append(decls, d)
	}
	sf := splitFile{header: string(src[:headerEnd])}
	seenLT := map[string]bool{}
	for _, d := range decls {
		// package-level type names too: a function-local type may legally re-use them
		if gd, ok := d.(*ast.GenDecl); ok && gd.Tok == token.TYPE {
			for _, sp := range gd.Specs {
				if ts, ok := sp.(*ast.TypeSpec); ok && ts.TypeParams == nil && !seenLT[ts.Name.Name] && ts.Name.Name != "_" {
					seenLT[ts.Name.Name] = true
					sf.localTypes = append(sf.localTypes, ts.Name.Name)
				}
			}
		}
		if fd, ok := d.(*ast.FuncDecl); ok && fd.Body != nil {
			ast.Inspect(fd.Body, func(n ast.Node) bool {
				if ts, ok := n.(*ast.TypeSpec); ok && ts.TypeParams == nil && !seenLT[ts.Name.Name] && ts.Name.Name != "_" {
					seenLT[ts.Name.Name] = true
					sf.localTypes = append(sf.localTypes, ts.Name.Name)
				}
				return true
			})
		}
	}
	prev := headerEnd
	for i, d := range decls {
		end := lineEnd(d.End())
		if i == len(decls)-1 {
			end = len(src)
		}
		if end < prev {
			end = prev
		}
		c := chunk{text: string(src[prev:end])}
		if fd, ok := d.(*ast.FuncDecl); ok {
			c.name = fd.Name.Name
			c.movable = fd.Recv == nil && fd.Name.Name != "init" && fd.Name.Name != "main"
		}
		sf.chunks = append(sf.chunks, c)
		prev = end
	}
	return sf
}

func (sf splitFile) render(order []int, pads map[int]string, tail string) (string, map[int]bool) {
	var b strings.Builder
	padLines := map[int]bool{}
	line := 1
	write := func(t string, pad bool) {
		for _, ch := range t {
			if pad {
				padLines[line] = true
			}
			if ch == '\n' {
				line++
			}
		}
		b.WriteString(t)
	}
	write(sf.header, false)
	for k, i := range order {
		if p, ok := pads[k]; ok {
			write(p, true)
		}
		t := sf.chunks[i].text
		if !strings.HasSuffix(t, "\n") {
			t += "\n"
		}
		write(t, false)
	}
	write(tail, true)
	return b.String(), padLines
}

type variant struct {
	name     string
	src      string
	padLines map[int]bool
	other    map[string]string // replacement contents of sibling files of the package (guest schemas)
}

// guestVariants moves the plain functions of the sibling example file (positive <-> negative, same package) into the
// target file, between its own declarations: every chunk keeps its comments and expectation lines, so both files'
// expectations are checked in the new neighbourhood. Imports of the sibling are added to the header (unused imports are
// tolerated by the type-check of these variants).
func guestVariants(sf, sib splitFile, sibBase string, sibImports []string) []variant {
	var guests []int
	var rest []int
	for i, c := range sib.chunks {
		if c.movable {
			guests = append(guests, i)
		} else {
			rest = append(rest, i)
		}
	}
	if len(guests) == 0 || len(sf.chunks) == 0 {
		return nil
	}
	host := sf
	if len(sibImports) > 0 {
		host.header = sf.header + "\nimport (\n\t" + strings.Join(sibImports, "\n\t") + "\n)\n"
	}
	n := len(host.chunks)
	all := append([]chunk{}, host.chunks...)
	all = append(all, sib.chunks...)
	host.chunks = all
	sibLeft, _ := sib.render(rest, nil, "")
	mk := func(name string, order []int) variant {
		src, pl := host.render(order, nil, "")
		return variant{name: name, src: src, padLines: pl, other: map[string]string{sibBase: sibLeft}}
	}
	var inter, front, back []int
	gi := 0
	for i := 0; i < n; i++ {
		inter = append(inter, i)
		if gi < len(guests) {
			inter = append(inter, n+guests[gi])
			gi++
		}
	}
	for ; gi < len(guests); gi++ {
		inter = append(inter, n+guests[gi])
	}
	for _, g := range guests {
		front = append(front, n+g)
	}
	for i := 0; i < n; i++ {
		front = append(front, i)
		back = append(back, i)
	}
	for _, g := range guests {
		back = append(back, n+g)
	}
	return []variant{mk("guest-interleave", inter), mk("guest-front", front), mk("guest-back", back)}
}

// variants applies the transformation schemas of Walker.tla: reorderings of the plain functions among their own slots,
// padding (blank lines / unrelated declarations of each kind, also a body-less function) before chunks, appended unrelated code.
func variants(sf splitFile, rng *rand.Rand, budget int, tag string) []variant {
	n := len(sf.chunks)
	id := make([]int, n)
	var mov []int
	for i := range id {
		id[i] = i
		if sf.chunks[i].movable {
			mov = append(mov, i)
		}
	}
	reorder := func(perm []int) []int { // perm permutes the movable slots
		o := append([]int{}, id...)
		for k, slot := range mov {
			o[slot] = mov[perm[k]]
		}
		return o
	}
	var out []variant
	add := func(name string, order []int, pads map[int]string, tail string) {
		src, pl := sf.render(order, pads, tail)
		out = append(out, variant{name: name, src: src, padLines: pl})
	}
	m := len(mov)
	if m >= 2 {
		rev := make([]int, m)
		rot := make([]int, m)
		for k := range rev {
			rev[k] = m - 1 - k
			rot[k] = (k + 1) % m
		}
		add("reverse", reorder(rev), nil, "")
		add("rotate", reorder(rot), nil, "")
		for t := 0; t < budget && t < m-1; t++ {
			k := rng.Intn(m - 1)
			p := make([]int, m)
			for j := range p {
				p[j] = j
			}
			p[k], p[k+1] = p[k+1], p[k]
			add(fmt.Sprintf("swap%d", k), reorder(p), nil, "")
		}
		for t := 0; t < budget/2+1; t++ {
			k := rng.Intn(m)
			p := []int{k}
			for j := 0; j < m; j++ {
				if j != k {
					p = append(p, j)
				}
			}
			add(fmt.Sprintf("front%d", k), reorder(p), nil, "")
			q := append(append([]int{}, p[1:]...), k)
			add(fmt.Sprintf("back%d", k), reorder(q), nil, "")
		}
		sh := rng.Perm(m)
		add("shuffle", reorder(sh), nil, "")
	}
	pads := map[string]string{
		"blank":    "\n\n\n",
		"var":      fmt.Sprintf("var verifPad%sV = 0\n\n", tag),
		"func":     fmt.Sprintf("func verifPad%sF() {}\n\n", tag),
		"type":     fmt.Sprintf("type verifPad%sT struct{ a int }\n\nfunc (verifPad%sT) m() {}\n\n", tag, tag),
		"bodyless": fmt.Sprintf("func verifPad%sB(x int) int\n\n", tag),
		"comment":  "// verif padding comment.\n\n",
		// statements outside any function declaration: a package-level function literal with a label, goto, defer, a loop and
		// a switch (Walker.tla PadGenMarked: what a checker learns there must not be attributed to a neighbouring function)
		"varfunc": fmt.Sprintf("var verifPad%sW = func(n int) int {\nverifPad%sAgain:\n\tif n < 3 {\n\t\tn++\n\t\tgoto verifPad%sAgain\n\t}\n\tdefer func() { _ = recover() }()\n\tfor i := 0; i < n; i++ {\n\t\tswitch {\n\t\tcase i == 1:\n\t\t\tcontinue\n\t\t}\n\t}\n\treturn n\n}\n\n", tag, tag, tag),
		// an unrelated function with a goto (Walker.tla PadFuncMarked)
		"gotofunc": fmt.Sprintf("func verifPad%sG(n int) int {\nverifPad%sRetry:\n\tif n < 3 {\n\t\tn++\n\t\tgoto verifPad%sRetry\n\t}\n\treturn n\n}\n\n", tag, tag, tag),
	}
	kinds := []string{"blank", "var", "func", "type", "bodyless", "comment", "varfunc", "gotofunc"}
	for _, k := range kinds {
		all := map[int]string{}
		for j := 0; j < n; j++ {
			all[j] = strings.ReplaceAll(pads[k], "verifPad"+tag, fmt.Sprintf("verifPad%s%d", tag, j))
		}
		add("pad-all-"+k, id, all, "")
	}
	for t := 0; t < budget && n > 0; t++ {
		j := rng.Intn(n)
		k := kinds[rng.Intn(len(kinds))]
		add(fmt.Sprintf("pad-%s-before%d", k, j), id, map[int]string{j: pads[k]}, "")
	}
	add("append", id, nil, "\n"+pads["var"]+pads["func"]+pads["type"]+"const verifPad"+tag+"C = 1\n")
	if len(sf.localTypes) > 0 {
		// unrelated code that re-uses the names of function-local types of this file (with other sizes), before and after
		var lt strings.Builder
		fmt.Fprintf(&lt, "func verifPad%sL() {\n", tag)
		for _, name := range sf.localTypes {
			fmt.Fprintf(&lt, "\t{\n\t\ttype %s struct{ verifPad [1000]struct{} ; verifPad2 [125]float64 }\n\t\tvar v %s\n\t\tfor _, x := range []%s{v} {\n\t\t\t_ = x\n\t\t}\n\t\tfunc(a %s) { _ = a }(v)\n\t}\n", name, name, name, name)
		}
		lt.WriteString("}\n\n")
		add("prepend-samename-localtypes", id, map[int]string{0: lt.String()}, "")
		add("append-samename-localtypes", id, nil, "\n"+strings.Replace(lt.String(), "verifPad"+tag+"L", "verifPad"+tag+"M", 1))
	}
	add("append-bodyless", id, nil, "\n"+pads["bodyless"]+pads["var"])
	add("append-varfunc", id, nil, "\n"+pads["varfunc"]+pads["gotofunc"])
	return out
}

type locMismatch struct {
	Dir     string `json:"dir"`
	File    string `json:"file"`
	Variant string `json:"variant"`
	Kind    string `json:"kind"` // unexpected | unmatched | typeerror
	Line    int    `json:"line"`
	Text    string `json:"text"`
}

// locality: C13 - the expectations of the maintainers' examples travel with the code through the transformations.
func locality(args []string) {
	fs := flag.NewFlagSet("locality", flag.ExitOnError)
	out := fs.String("out", "", "output JSON")
	work := fs.String("work", "", "scratch directory")
	seed := fs.Int64("seed", 1, "seed")
	budget := fs.Int("budget", 2, "number of seeded swaps / single pads per file")
	frac := fs.Int("frac", 1, "use every frac-th example directory (rotated by seed)")
	fs.Parse(args)
	hx.Init()
	infos := map[string]*linter.CheckerInfo{}
	for _, in := range hx.Infos() {
		infos[in.Name] = in
	}
	// the parameter values the repository's own checker tests use
	infos["captLocal"].Params["paramsOnly"].Value = false
	infos["commentedOutCode"].Params["minLength"].Value = 9
	alias := map[string]string{"tooManyResults": "tooManyResultsChecker"}

	fset := token.NewFileSet()
	dirs := hx.ExampleDirs()
	var sel []string
	for i, d := range dirs {
		if (i+int(*seed))%*frac == 0 {
			sel = append(sel, d)
		}
	}
	pkgs, err := hx.LoadExamples(fset, sel)
	hx.Must(err)
	// importer serving the dependencies that go/packages already loaded
	deps := map[string]*types.Package{}
	var visit func(p *packages.Package)
	visit = func(p *packages.Package) {
		if p.Types != nil {
			deps[p.PkgPath] = p.Types
		}
		for _, q := range p.Imports {
			if _, ok := deps[q.PkgPath]; !ok {
				visit(q)
			}
		}
	}
	for _, p := range pkgs {
		for _, q := range p.Imports {
			visit(q)
		}
	}

	var mu sync.Mutex
	var mismatches []locMismatch
	stats := map[string]int{}
	var uncovered []string
	sem := make(chan struct{}, runtime.GOMAXPROCS(0))
	var wg sync.WaitGroup
	for _, p := range pkgs {
		dir := filepath.Base(p.PkgPath)
		name := dir
		if a, ok := alias[dir]; ok {
			name = a
		}
		info, ok := infos[name]
		if !ok {
			uncovered = append(uncovered, dir)
			continue
		}
		baseErrs := len(p.Errors)
		wg.Add(1)
		sem <- struct{}{}
		go func(p *packages.Package, dir string, info *linter.CheckerInfo) {
			defer func() { <-sem; wg.Done() }()
			rng := rand.New(rand.NewSource(*seed*7919 + int64(len(dir))*104729 + int64(dir[0])))
			for fi, f := range p.Syntax {
				phys := hx.FileName(fset, f.Pos())
				base := filepath.Base(phys)
				if base != "positive_tests.go" && base != "negative_tests.go" {
					continue
				}
				src, err := os.ReadFile(phys)
				if err != nil {
					continue
				}
				sf := split(fset, src, f)
				vs := append([]variant{{name: "identity", src: string(src)}}, variants(sf, rng, *budget, fmt.Sprintf("%d", fi))...)
				// the sibling example file of the same package as a source of guest declarations
				sibBase := "negative_tests.go"
				if base == sibBase {
					sibBase = "positive_tests.go"
				}
				for _, g := range p.Syntax {
					gphys := hx.FileName(fset, g.Pos())
					if filepath.Base(gphys) != sibBase {
						continue
					}
					gsrc, err := os.ReadFile(gphys)
					if err != nil {
						continue
					}
					// applicable only if the guests see the same imports under the same names (a file's import table is
					// part of what its declarations mean: importShadow, dupImport, ... legitimately depend on it)
					key := func(im *ast.ImportSpec) string {
						if im.Name != nil {
							return im.Name.Name + " " + im.Path.Value
						}
						return im.Path.Value
					}
					have := map[string]bool{}
					for _, im := range f.Imports {
						have[key(im)] = true
					}
					same := len(f.Imports) == len(g.Imports)
					for _, im := range g.Imports {
						if !have[key(im)] {
							same = false
						}
					}
					if !same {
						continue
					}
					var extra []string
					vs = append(vs, guestVariants(sf, split(fset, gsrc, g), sibBase, extra)...)
				}
				for vi, v := range vs {
					mm, nWarn, nExp := runVariant(*work, dir, base, vi, v, p, deps, info, baseErrs)
					mu.Lock()
					stats["variants"]++
					stats["warnings"] += nWarn
					stats["expectations"] += nExp
					if v.name == "identity" && len(mm) != 0 {
						// the untransformed example does not pass in this harness: do not judge its variants
						stats["identity_failures"]++
						mu.Unlock()
						fmt.Fprintf(os.Stderr, "vh: identity variant of %s/%s fails: %+v\n", dir, base, mm[0])
						break
					}
					mismatches = append(mismatches, mm...)
					mu.Unlock()
				}
			}
		}(p, dir, info)
	}
	wg.Wait()
	sort.Slice(mismatches, func(i, j int) bool {
		a, b := mismatches[i], mismatches[j]
		return a.Dir+a.File+a.Variant < b.Dir+b.File+b.Variant
	})
	b, _ := json.MarshalIndent(map[string]interface{}{"mismatches": mismatches, "stats": stats, "dirs": len(sel), "uncovered": uncovered}, "", " ")
	hx.Must(os.WriteFile(*out, b, 0o644))
}

type mapImporter map[string]*types.Package

func (m mapImporter) Import(path string) (*types.Package, error) {
	if p, ok := m[path]; ok {
		return p, nil
	}
	return nil, fmt.Errorf("package %q not loaded", path)
}

func runVariant(work, dir, base string, vi int, v variant, p *packages.Package, deps map[string]*types.Package,
	info *linter.CheckerInfo, baseErrs int) (mm []locMismatch, nWarn, nExp int) {
	vdir := filepath.Join(work, dir, fmt.Sprintf("%s_%d", strings.TrimSuffix(base, ".go"), vi))
	hx.Must(os.MkdirAll(vdir, 0o755))
	defer os.RemoveAll(vdir)
	fset := token.NewFileSet()
	var files []*ast.File
	var target *ast.File
	var targetPath string
	for _, gf := range p.GoFiles {
		b := filepath.Base(gf)
		data, err := os.ReadFile(gf)
		hx.Must(err)
		if b == base {
			data = []byte(v.src)
		} else if r, ok := v.other[b]; ok {
			data = []byte(r)
		}
		path := filepath.Join(vdir, b)
		hx.Must(os.WriteFile(path, data, 0o644))
		f, err := parser.ParseFile(fset, path, nil, parser.ParseComments)
		if err != nil {
			return []locMismatch{{dir, base, v.name, "typeerror", 0, "parse: " + err.Error()}}, 0, 0
		}
		files = append(files, f)
		if b == base {
			target, targetPath = f, path
		}
	}
	tinfo := &types.Info{Types: map[ast.Expr]types.TypeAndValue{}, Defs: map[*ast.Ident]types.Object{}, Uses: map[*ast.Ident]types.Object{},
		Implicits: map[ast.Node]types.Object{}, Selections: map[*ast.SelectorExpr]*types.Selection{}, Scopes: map[ast.Node]*types.Scope{},
		Instances: map[*ast.Ident]types.Instance{}}
	nerr := 0
	var firstErr string
	conf := types.Config{Importer: mapImporter(deps), Sizes: hx.Sizes, Error: func(err error) {
		if strings.Contains(err.Error(), "missing function body") || strings.Contains(err.Error(), "func verifPad") {
			return
		}
		if v.other != nil && strings.Contains(err.Error(), "imported and not used") {
			return
		}
		nerr++
		if firstErr == "" {
			firstErr = err.Error()
		}
	}}
	tpkg, _ := conf.Check(p.PkgPath, fset, files, tinfo)
	if (nerr > 0) != (baseErrs > 0) {
		if strings.Contains(v.name, "samename") || strings.Contains(v.name, "varfunc") || strings.Contains(v.name, "gotofunc") || v.other != nil {
			return nil, 0, 0 // the re-used names are not usable as struct type names in this file (e.g. shadowed builtins): schema not applicable
		}
		return []locMismatch{{dir, base, v.name, "typeerror", 0, firstErr}}, 0, 0
	}
	ctx := linter.NewContext(fset, hx.Sizes)
	ctx.SetPackageInfo(tinfo, tpkg)
	c, err := linter.NewChecker(ctx, info)
	hx.Must(err)
	// as linttest does
	for _, cg := range target.Comments {
		for _, cm := range cg.List {
			if strings.HasPrefix(cm.Text, "/// ") {
				cm.Text = "//"
			}
		}
	}
	ctx.SetFileInfo(base, target)
	var warns []linter.Warning
	func() {
		defer func() {
			if r := recover(); r != nil {
				mm = append(mm, locMismatch{dir, base, v.name, "unexpected", 0, fmt.Sprint("panic: ", r)})
			}
		}()
		warns = c.Check(target)
	}()
	exp := map[int][]string{}
	{
		fh, err := os.Open(targetPath)
		hx.Must(err)
		sc := bufio.NewScanner(fh)
		sc.Buffer(make([]byte, 1<<20), 1<<20)
		var pending []string
		for i := 0; sc.Scan(); i++ {
			if m := directiveRE.FindStringSubmatch(sc.Text()); m != nil {
				pending = append(pending, m[1])
			} else if len(pending) != 0 {
				exp[i+1] = pending
				nExp += len(pending)
				pending = nil
			}
		}
		fh.Close()
	}
	used := map[string]bool{}
	for _, w := range warns {
		line := fset.Position(w.Pos).Line
		if v.padLines[line] {
			continue // a diagnostic about the inserted unrelated code itself
		}
		nWarn++
		found := false
		for k, t := range exp[line] {
			key := fmt.Sprintf("%d/%d", line, k)
			if t == w.Text && !used[key] {
				used[key] = true
				found = true
				break
			}
		}
		if !found {
			mm = append(mm, locMismatch{dir, base, v.name, "unexpected", line, w.Text})
		}
	}
	for line, ts := range exp {
		for k, t := range ts {
			if !used[fmt.Sprintf("%d/%d", line, k)] {
				mm = append(mm, locMismatch{dir, base, v.name, "unmatched", line, t})
			}
		}
	}
	return mm, nWarn, nExp
}
