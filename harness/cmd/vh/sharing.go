package main

import (
	"encoding/json"
	"flag"
	"fmt"
	"go/token"
	"os"
	"reflect"
	"sort"
	"strings"
	"unsafe"

	"verifharness/hx"

	"github.com/go-critic/go-critic/linter"
)

func init() { commands["sharing"] = sharingCmd }

// sharingCmd: two instances of every checker, constructed on two separate contexts (what two concurrent analysis passes do),
// must not reach a common heap object other than the registry entry they were created from and objects of types that are
// immutable after construction. The object graphs are walked by reflection (unexported fields included).
func sharingCmd(args []string) {
	fs := flag.NewFlagSet("sharing", flag.ExitOnError)
	out := fs.String("out", "", "output JSON")
	fs.Parse(args)
	hx.Init()
	type shared struct {
		Checker string `json:"checker"`
		Type    string `json:"type"`
		Path    string `json:"path"`
		Written bool   `json:"written"` // the object's printed value changed while ONE of the two instances analysed the checker's example files
	}
	var res []shared
	n := 0
	fset := token.NewFileSet()
	pkgs, err := hx.LoadExamples(fset, hx.ExampleDirs())
	hx.Must(err)
	units := hx.Units(fset, pkgs)
	for _, in := range hx.Infos() {
		mk := func() (*linter.Checker, *linter.Context) {
			ctx := linter.NewContext(fset, hx.Sizes)
			c, err := linter.NewChecker(ctx, in)
			hx.Must(err)
			return c, ctx
		}
		a, actx := mk()
		b, _ := mk()
		pa := reach(reflect.ValueOf(a))
		pb := reach(reflect.ValueOf(b))
		n++
		type obj struct {
			v    reflect.Value
			desc string
		}
		var common []obj
		seen := map[string]bool{}
		for p, o := range pa {
			if _, ok := pb[p]; ok && !seen[o.desc] {
				seen[o.desc] = true
				common = append(common, obj{o.v, o.desc})
			}
		}
		if len(common) == 0 {
			continue
		}
		sort.Slice(common, func(i, j int) bool { return common[i].desc < common[j].desc })
		before := make([]string, len(common))
		for i, o := range common {
			before[i] = printed(o.v)
		}
		// instance A analyses the checker's own example files; B is never run
		for _, u := range units {
			if !strings.Contains(u.ID, "/"+in.Name+"/") {
				continue
			}
			func() {
				defer func() { recover() }()
				actx.SetPackageInfo(u.Pkg.TypesInfo, u.Pkg.Types)
				actx.SetFileInfo(u.Base, u.File)
				a.Check(u.File)
			}()
		}
		for i, o := range common {
			parts := strings.SplitN(o.desc, " @ ", 2)
			res = append(res, shared{in.Name, parts[0], parts[1], printed(o.v) != before[i]})
		}
	}
	b, _ := json.MarshalIndent(map[string]interface{}{"shared": res, "checkers": n}, "", " ")
	hx.Must(os.WriteFile(*out, b, 0o644))
}

type reached struct {
	v    reflect.Value
	desc string
}

// printed renders the object one level deep (nested pointers print as addresses, so there is no recursion into cycles).
func printed(v reflect.Value) (s string) {
	defer func() {
		if r := recover(); r != nil {
			s = fmt.Sprint("unprintable: ", r)
		}
	}()
	if v.Kind() == reflect.Ptr && !v.IsNil() {
		v = v.Elem()
	}
	if v.CanAddr() && !v.CanInterface() {
		v = reflect.NewAt(v.Type(), unsafe.Pointer(v.UnsafeAddr())).Elem()
	}
	if !v.CanInterface() {
		return fmt.Sprintf("%d bytes at %x", v.Type().Size(), v.UnsafeAddr())
	}
	return fmt.Sprintf("%#v", v.Interface())
}

// immutable or deliberately shared: type descriptors, the registry entry, compiled regexps, positions
func skipType(t reflect.Type) bool {
	s := t.String()
	for _, p := range []string{"*linter.CheckerInfo", "linter.CheckerInfo", "*regexp.Regexp", "*types.", "types.", "*token.FileSet", "reflect.", "*reflect.", "func(", "*sync.", "sync."} {
		if strings.HasPrefix(s, p) {
			return true
		}
	}
	return false
}

func reach(root reflect.Value) map[uintptr]reached {
	out := map[uintptr]reached{}
	seen := map[uintptr]bool{}
	var walk func(v reflect.Value, path string, depth int)
	walk = func(v reflect.Value, path string, depth int) {
		if !v.IsValid() || depth > 12 {
			return
		}
		if skipType(v.Type()) {
			return
		}
		switch v.Kind() {
		case reflect.Ptr:
			if v.IsNil() {
				return
			}
			p := v.Pointer()
			if seen[p] {
				return
			}
			seen[p] = true
			if v.Elem().Kind() == reflect.Struct || v.Elem().Kind() == reflect.Array {
				out[p] = reached{v, fmt.Sprintf("%s @ %s", v.Type(), path)}
			}
			walk(v.Elem(), path, depth+1)
		case reflect.Interface:
			if !v.IsNil() {
				walk(v.Elem(), path, depth+1)
			}
		case reflect.Struct:
			for i := 0; i < v.NumField(); i++ {
				f := v.Field(i)
				if !f.CanInterface() && f.CanAddr() {
					f = reflect.NewAt(f.Type(), unsafe.Pointer(f.UnsafeAddr())).Elem()
				}
				walk(f, path+"."+v.Type().Field(i).Name, depth+1)
			}
		case reflect.Slice:
			if v.IsNil() || v.Len() == 0 {
				return
			}
			p := v.Pointer()
			if !seen[p] {
				seen[p] = true
				out[p] = reached{v, fmt.Sprintf("%s @ %s", v.Type(), path)}
			}
			for i := 0; i < v.Len() && i < 64; i++ {
				walk(v.Index(i), path+"[]", depth+1)
			}
		case reflect.Map:
			if v.IsNil() {
				return
			}
			p := v.Pointer()
			if !seen[p] {
				seen[p] = true
				out[p] = reached{v, fmt.Sprintf("%s @ %s", v.Type(), path)}
			}
			it := v.MapRange()
			k := 0
			for it.Next() && k < 64 {
				walk(it.Value(), path+"{}", depth+1)
				k++
			}
		}
	}
	// addressable copy of the root so that unexported fields can be read
	walk(root, "checker", 0)
	return out
}
