------------------------------ MODULE RuleLoad ------------------------------
(***************************************************************************)
(* checkers/ruleguard_checker.go newRuleguardChecker: the dynamic-rules    *)
(* checker loads user rule files.  For every pattern: glob; no match is an *)
(* error; for every file: read, Load; a failure either fails the           *)
(* initialisation (its class is listed in failOn, or the legacy boolean is *)
(* set) or is logged and the file is skipped.  The engine is installed iff *)
(* `loaded # 0`.                                                           *)
(*                                                                         *)
(* A case (file kinds, failOn subset, legacy flag, unknown token, pattern  *)
(* form) is the initial state; the loop runs as actions.  DocMustFail /    *)
(* DocMaySkip state the documented policy; kinds whose class the           *)
(* statement does not fix (an unreadable file under {dsl} or {import}      *)
(* alone) are unconstrained.                                               *)
(* CountOnlySuccessful = FALSE is the pinned tree: `loaded++` is executed  *)
(* for failed loads too, so with every file skipped the engine is still    *)
(* installed and each analysed file gets a spurious "execution error".     *)
(*                                                                         *)
(* Part 2 (InitGroups): group filtering over a valid file with groups of   *)
(* different tags.                                                         *)
(***************************************************************************)
EXTENDS Naturals, Sequences, FiniteSets, TLC
Kinds == {"valid", "unreadable", "syntax", "dsl", "badimport", "empty"}
LoadClass(k)  == CASE k = "valid" -> "ok" [] k = "badimport" -> "import" [] OTHER -> "dsl"   \* unreadable: Load is still called on empty data
FailTokens == {"import", "dsl", "all"}

CONSTANTS MaxFiles, CountOnlySuccessful
VARIABLES files, failOn, legacy, unknownTok, pats,     \* the case
          pc, i, loaded, active, skipped, outcome,     \* the run
          gcase                                        \* group-filter case (part 2) or <<>>
cvars == <<files, failOn, legacy, unknownTok, pats, gcase>>
vars == <<files, failOn, legacy, unknownTok, pats, gcase, pc, i, loaded, active, skipped, outcome>>

EffFailOn == IF failOn = {} /\ legacy THEN {"all"} ELSE failOn
Fails(cls) == \/ "all" \in EffFailOn
              \/ (cls = "import" /\ "import" \in EffFailOn)
              \/ (cls # "import" /\ "dsl" \in EffFailOn)

InitLoad == /\ files \in UNION { [1..n -> Kinds] : n \in 1..MaxFiles }
            /\ failOn \in SUBSET FailTokens /\ legacy \in BOOLEAN /\ unknownTok \in BOOLEAN
            /\ pats \in {"list", "glob", "nomatch-first", "nomatch-last"}
            /\ gcase = <<>>
            /\ pc = "parseFailOn" /\ i = 1 /\ loaded = 0 /\ active = {} /\ skipped = {} /\ outcome = "running"

ParseFailOn == /\ pc = "parseFailOn"
               /\ IF unknownTok THEN outcome' = "initError" /\ pc' = "done"
                  ELSE outcome' = outcome /\ pc' = IF pats = "nomatch-first" THEN "nomatch" ELSE "file"
               /\ UNCHANGED <<cvars, i, loaded, active, skipped>>
NoMatch == pc = "nomatch" /\ outcome' = "initError" /\ pc' = "done" /\ UNCHANGED <<cvars, i, loaded, active, skipped>>
File == /\ pc = "file" /\ i <= Len(files)
        /\ LET k == files[i]
               readBad == k = "unreadable" /\ Fails("dsl")          \* os.ReadFile error is not an ImportError
               cls == LoadClass(k)
               loadBad == cls # "ok" /\ Fails(cls)
           IN IF readBad \/ loadBad
              THEN outcome' = "initError" /\ pc' = "done" /\ UNCHANGED <<i, loaded, active, skipped>>
              ELSE /\ i' = i + 1 /\ UNCHANGED <<outcome, pc>>
                   /\ loaded' = IF cls = "ok" \/ ~CountOnlySuccessful THEN loaded + 1 ELSE loaded
                   /\ active' = IF cls = "ok" THEN active \cup {i} ELSE active
                   /\ skipped' = IF cls = "ok" THEN skipped ELSE skipped \cup {i}
        /\ UNCHANGED cvars
Finish == /\ pc = "file" /\ i > Len(files)
          /\ IF pats = "nomatch-last" THEN outcome' = "initError"
             ELSE outcome' = IF loaded # 0 /\ active = {} THEN "ok+spuriousExecError" ELSE "ok"
          /\ pc' = "done" /\ UNCHANGED <<cvars, i, loaded, active, skipped>>
Next == ParseFailOn \/ NoMatch \/ File \/ Finish
SpecLoad == InitLoad /\ [][Next]_vars

\* ---- the documented policy -------------------------------------------------
DocClass(k) == CASE k = "valid" -> {} [] k = "badimport" -> {"import"} [] k = "unreadable" -> {"import", "dsl"} [] OTHER -> {"dsl"}
DocMustFail == \/ unknownTok \/ pats \in {"nomatch-first", "nomatch-last"}
               \/ \E j \in 1..Len(files) : files[j] # "valid" /\
                     ("all" \in EffFailOn \/ (DocClass(files[j]) \subseteq EffFailOn))
DocMaySkip == ~unknownTok /\ pats \in {"list", "glob"} /\
              \A j \in 1..Len(files) : files[j] = "valid" \/
                  ("all" \notin EffFailOn /\ DocClass(files[j]) \cap EffFailOn = {})
DocVerdict == IF DocMustFail THEN "fail" ELSE IF DocMaySkip THEN "ok" ELSE "either"
Valid == { j \in 1..Len(files) : files[j] = "valid" }
Conforms == (pc = "done" /\ gcase = <<>>) =>
              /\ DocMustFail => outcome = "initError"
              /\ DocMaySkip => (outcome = "ok" /\ active = Valid)

\* ---- part 2: group filtering -----------------------------------------------------
\* one valid file with three groups: gS (tag style), gX (tags style, experimental), gD (tag diagnostic)
Groups == {"gS", "gX", "gD"}
GTags(g) == CASE g = "gS" -> {"style"} [] g = "gX" -> {"style", "experimental"} [] OTHER -> {"diagnostic"}
GKeys == {"<all>", "gS", "gX", "gD", "#style", "#experimental", "#diagnostic", "nosuch", "#nosuch"}
GLists == { <<>> } \cup { <<k>> : k \in GKeys } \cup { <<k1, k2>> : k1 \in GKeys \ {"<all>"}, k2 \in GKeys \ {"<all>"} }
IsTagKey(k) == k \in {"#style", "#experimental", "#diagnostic", "#nosuch"}
TagOf(k) == CASE k = "#style" -> "style" [] k = "#experimental" -> "experimental" [] k = "#diagnostic" -> "diagnostic" [] OTHER -> "nosuch"
Hit(g, l) == \E n \in 1..Len(l) : IF IsTagKey(l[n]) THEN TagOf(l[n]) \in GTags(g) ELSE l[n] = g
\* documented: enabled (by name, by tag or "<all>") and not disabled; experimental groups only when asked for
DocGroup(g, E, D) ==
  LET en == E = <<"<all>">> \/ Hit(g, E)
      dis == Hit(g, D)
      asked == \E n \in 1..Len(E) : E[n] = "#experimental"
      byName == \E n \in 1..Len(E) : E[n] = g
  IN IF ~en \/ dis THEN {FALSE}
     ELSE IF "experimental" \notin GTags(g) \/ asked THEN {TRUE}
     ELSE IF byName THEN {TRUE, FALSE}           \* asked for by name only: the statement does not fix it
     ELSE {FALSE}
\* the code: disabledTags gets "experimental" unless "#experimental" is among the enabled tags
ImplGroup(g, E, D) ==
  LET en == E = <<"<all>">> \/ Hit(g, E)
      asked == \E n \in 1..Len(E) : E[n] = "#experimental"
      disTag == (\E n \in 1..Len(D) : IsTagKey(D[n]) /\ TagOf(D[n]) \in GTags(g)) \/ (~asked /\ "experimental" \in GTags(g))
      disName == \E n \in 1..Len(D) : D[n] = g
  IN en /\ ~disName /\ ~disTag
InitGroups == /\ gcase \in { <<e, d>> : e \in GLists \ {<<>>}, d \in GLists }
              /\ files = <<"valid">> /\ failOn = {} /\ legacy = FALSE /\ unknownTok = FALSE /\ pats = "list"
              /\ pc = "done" /\ i = 1 /\ loaded = 1 /\ active = {1} /\ skipped = {} /\ outcome = "ok"
SpecGroups == InitGroups /\ [][UNCHANGED vars]_vars
GroupsConform == gcase # <<>> => \A g \in Groups : ImplGroup(g, gcase[1], gcase[2]) \in DocGroup(g, gcase[1], gcase[2])
=============================================================================
