package main

import (
	"encoding/json"
	"flag"
	"fmt"
	"go/ast"
	"go/parser"
	"go/token"
	"go/types"
	"os"
	"path/filepath"
	"sort"

	"verifharness/hx"

	"github.com/go-critic/go-critic/linter"
	"golang.org/x/tools/go/packages"
)

func init() { commands["fsetorder"] = fsetOrder }

// fsetOrder: diagnostics must not depend on the order in which the files of a package were added to the FileSet
// (go/packages parses them concurrently, so the order of their position bases is a matter of scheduling).
// Every package with two or more files is parsed and type-checked twice - files registered forwards and backwards -
// and analysed file by file in name order by every checker; the rendered diagnostics must be equal.
func fsetOrder(args []string) {
	fs := flag.NewFlagSet("fsetorder", flag.ExitOnError)
	dir := fs.String("dir", "", "module directory")
	out := fs.String("out", "", "output JSON")
	fs.Parse(args)
	hx.Init()
	fset0 := token.NewFileSet()
	pkgs, err := hx.Load(fset0, *dir, false, "./...")
	hx.Must(err)
	deps := map[string]*types.Package{}
	var visit func(p *packages.Package)
	visit = func(p *packages.Package) {
		if p.Types != nil {
			deps[p.PkgPath] = p.Types
		}
		for _, q := range p.Imports {
			if _, ok := deps[q.PkgPath]; !ok {
				visit(q)
			}
		}
	}
	for _, p := range pkgs {
		visit(p)
	}
	infos := hx.Infos()
	type mismatch struct {
		Pkg      string   `json:"pkg"`
		Checker  string   `json:"checker"`
		Forward  []string `json:"forward"`
		Backward []string `json:"backward"`
	}
	var mm []mismatch
	npk, nchecks := 0, 0
	analyse := func(p *packages.Package, reverse bool) map[string][]string {
		files := append([]string{}, p.GoFiles...)
		sort.Strings(files)
		reg := append([]string{}, files...)
		if reverse {
			for i, j := 0, len(reg)-1; i < j; i, j = i+1, j-1 {
				reg[i], reg[j] = reg[j], reg[i]
			}
		}
		fset := token.NewFileSet()
		parsed := map[string]*ast.File{}
		for _, fn := range reg {
			f, err := parser.ParseFile(fset, fn, nil, parser.ParseComments)
			if err != nil {
				return nil
			}
			parsed[fn] = f
		}
		var asts []*ast.File
		for _, fn := range files {
			asts = append(asts, parsed[fn])
		}
		tinfo := &types.Info{Types: map[ast.Expr]types.TypeAndValue{}, Defs: map[*ast.Ident]types.Object{}, Uses: map[*ast.Ident]types.Object{},
			Implicits: map[ast.Node]types.Object{}, Selections: map[*ast.SelectorExpr]*types.Selection{}, Scopes: map[ast.Node]*types.Scope{},
			Instances: map[*ast.Ident]types.Instance{}}
		conf := types.Config{Importer: mapImporter(deps), Sizes: hx.Sizes, Error: func(error) {}}
		tpkg, _ := conf.Check(p.PkgPath, fset, asts, tinfo)
		res := map[string][]string{}
		for _, in := range infos {
			ctx := linter.NewContext(fset, hx.Sizes)
			ctx.SetPackageInfo(tinfo, tpkg)
			c, err := linter.NewChecker(ctx, in)
			if err != nil {
				continue
			}
			var lines []string
			for i, fn := range files {
				func() {
					defer func() {
						if r := recover(); r != nil {
							lines = append(lines, fmt.Sprintf("%s: panic: %v", filepath.Base(fn), r))
						}
					}()
					ctx.SetFileInfo(filepath.Base(fn), asts[i])
					for _, w := range c.Check(asts[i]) {
						pos := fset.Position(w.Pos)
						lines = append(lines, fmt.Sprintf("%s:%d:%d: %s", filepath.Base(pos.Filename), pos.Line, pos.Column, w.Text))
					}
				}()
			}
			res[in.Name] = lines
		}
		return res
	}
	for _, p := range pkgs {
		if len(p.GoFiles) < 2 || len(p.Errors) != 0 {
			continue
		}
		a, b := analyse(p, false), analyse(p, true)
		if a == nil || b == nil {
			continue
		}
		npk++
		for _, in := range infos {
			nchecks++
			x, y := a[in.Name], b[in.Name]
			if fmt.Sprint(x) != fmt.Sprint(y) {
				mm = append(mm, mismatch{p.PkgPath, in.Name, x, y})
			}
		}
	}
	bts, _ := json.MarshalIndent(map[string]interface{}{"mismatches": mm, "packages": npk, "comparisons": nchecks}, "", " ")
	hx.Must(os.WriteFile(*out, bts, 0o644))
}
