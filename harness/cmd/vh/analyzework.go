package main

import (
	"fmt"
	"go/token"
	"go/types"
	"sync"

	"github.com/go-critic/go-critic/checkers/analyzer"
	"github.com/go-critic/go-critic/linter"
	"golang.org/x/tools/go/analysis"
	"golang.org/x/tools/go/analysis/checker"
	"golang.org/x/tools/go/packages"
	"verifharness/hx"
)

// workRec records the work loop of every analyzer pass (AnalyzerWork.tla): which files a pass was given,
// every SetFileInfo and every Check (with the warnings returned) on the context the pass created, the
// return of the pass and, after the run, the diagnostics the driver holds for the pass' action. Contexts
// are attributed to passes through the *types.Package handed to SetPackageInfo.
type workRec struct {
	mu     sync.Mutex
	fset   *token.FileSet
	tr     *hx.Trace
	path   string
	passID map[*types.Package]int
	ctxOf  map[*linter.Context]int
	open   bool
}

type diagRec struct {
	File string `json:"file"`
	D    string `json:"d"`
}

func newWorkRec(fset *token.FileSet, path string) *workRec {
	w := &workRec{fset: fset, tr: hx.NewTrace(path), path: path, passID: map[*types.Package]int{}, ctxOf: map[*linter.Context]int{}, open: true}
	analyzer.VerifHook = func(ev string, pass *analysis.Pass) {
		if pass == nil {
			return
		}
		w.mu.Lock()
		defer w.mu.Unlock()
		if !w.open {
			return
		}
		switch ev {
		case "PassPrepared":
			id := len(w.passID) + 1
			w.passID[pass.Pkg] = id
			files := []string{}
			for _, f := range pass.Files {
				files = append(files, hx.FileName(w.fset, f.Pos()))
			}
			w.tr.Emit(map[string]interface{}{"ev": "WBegin", "pass": id, "pkg": pass.Pkg.Path(), "files": files})
		case "PassReturnOK":
			w.tr.Emit(map[string]interface{}{"ev": "WReturn", "pass": w.passID[pass.Pkg]})
		}
	}
	linter.VerifRecorder = func(e *linter.VerifEvent) {
		w.mu.Lock()
		defer w.mu.Unlock()
		if !w.open {
			return
		}
		switch e.Ev {
		case "SetPkg":
			if id, ok := w.passID[e.Pkg]; ok {
				w.ctxOf[e.Ctx] = id
			}
		case "SetFile":
			if id, ok := w.ctxOf[e.Ctx]; ok {
				w.tr.Emit(map[string]interface{}{"ev": "WSetFile", "pass": id, "file": hx.FileName(w.fset, e.File.Pos())})
			}
		case "CheckEnd":
			if id, ok := w.ctxOf[e.Ctx]; ok {
				file := hx.FileName(w.fset, e.File.Pos())
				w.tr.Emit(map[string]interface{}{"ev": "WCheck", "pass": id, "checker": e.Checker, "file": file,
					"ws": w.warnRecs(e.Checker, e.Warnings)})
			}
		}
	}
	return w
}

func (w *workRec) rec(pos token.Pos, msg, fix string) diagRec {
	p := w.fset.Position(pos)
	return diagRec{File: hx.FileName(w.fset, pos), D: fmt.Sprintf("%d|%s|%s", p.Offset, msg, fix)}
}

func (w *workRec) warnRecs(name string, ws []linter.Warning) []diagRec {
	out := []diagRec{}
	for _, x := range ws {
		fix := ""
		if x.HasQuickFix() {
			fix = fmt.Sprintf("%d-%d %q", w.fset.Position(x.Suggestion.From).Offset, w.fset.Position(x.Suggestion.To).Offset, x.Suggestion.Replacement)
		}
		out = append(out, w.rec(x.Pos, name+": "+x.Text, fix))
	}
	return out
}

// finish emits what the driver holds for every pass and computes the fresh per-variant verdicts.
func (w *workRec) finish(g *checker.Graph) {
	w.mu.Lock()
	was := w.open
	w.open = false
	w.mu.Unlock()
	if !was {
		return
	}
	linter.VerifRecorder = nil
	analyzer.VerifHook = nil
	refs := hx.NewTrace(w.path + ".refs")
	names := analyzer.VerifFilter()
	refs.Emit(map[string]interface{}{"checkers": names})
	byName := map[string]*linter.CheckerInfo{}
	for _, in := range linter.GetCheckersInfo() {
		byName[in.Name] = in
	}
	goVer := ""
	if f := analyzer.Analyzer.Flags.Lookup("go"); f != nil {
		goVer = f.Value.String()
	}
	for _, act := range g.Roots {
		id, ok := w.passID[act.Package.Types]
		if !ok || act.Err != nil {
			continue
		}
		ds := []diagRec{}
		for _, d := range act.Diagnostics {
			fix := ""
			for _, sf := range d.SuggestedFixes {
				for _, e := range sf.TextEdits {
					fix += fmt.Sprintf("%d-%d %q", w.fset.Position(e.Pos).Offset, w.fset.Position(e.End).Offset, e.NewText)
				}
			}
			ds = append(ds, w.rec(d.Pos, d.Message, fix))
		}
		w.tr.Emit(map[string]interface{}{"ev": "WDeliver", "pass": id, "pkg": act.Package.ID, "ds": ds})
		for _, u := range hx.Units(w.fset, []*packages.Package{act.Package}) {
			for _, n := range names {
				in := byName[n]
				if in == nil {
					continue
				}
				_, ws, err := hx.Fresh(w.fset, in, u, goVer)
				if err != nil {
					hx.Fatalf("fresh %s on %s: %v", n, u.ID, err)
				}
				if len(ws) > 0 {
					refs.Emit(map[string]interface{}{"pass": id, "file": u.Phys, "checker": n, "ws": w.warnRecs(n, ws)})
				}
			}
		}
	}
	refs.Close()
	w.tr.Close()
}
