package main

import (
	"bytes"
	"encoding/json"
	"flag"
	"fmt"
	"go/token"
	"log"
	"os"
	"path/filepath"
	"sort"
	"strings"

	"github.com/go-critic/go-critic/linter"
	"verifharness/hx"
)

func init() { commands["ruleload"] = ruleload }

type ruleCase struct {
	ID         string
	Files      []string
	FailOn     []string
	Legacy     bool
	UnknownTok bool
	Pats       string
	Enable     []string // nil = default
	Disable    []string
	Groups     bool // part 2: one valid file with groups gS, gX, gD
}

const ruleHeader = "//go:build ignore\n\npackage gorules\n\nimport \"github.com/quasilyte/go-ruleguard/dsl\"\n\n"

func ruleFileSource(kind string, j int) string {
	switch kind {
	case "valid":
		return ruleHeader + fmt.Sprintf("func g%d(m dsl.Matcher) {\n\tm.Match(`probe%d()`).Report(`hit%d`)\n}\n", j, j, j)
	case "syntax":
		return "package gorules\n\nfunc (\n"
	case "dsl":
		return ruleHeader + fmt.Sprintf("func bad%d(m dsl.Matcher) {\n\tx := 1\n\t_ = x\n\tm.Match(`probe%d()`)\n}\n", j, j)
	case "badimport":
		return ruleHeader + fmt.Sprintf("func imp%d(m dsl.Matcher) {\n\tm.Import(`example.com/nowhere/zzz`)\n\tm.Match(`probe%d($x)`).Where(m[\"x\"].Type.Implements(`zzz.Iface`)).Report(`imp%d`)\n}\n", j, j, j)
	case "empty":
		return ""
	}
	panic("kind " + kind)
}

const groupsFile = ruleHeader + `//doc:summary style group
//doc:tags    style
//doc:before  x
//doc:after   y
func gS(m dsl.Matcher) {
	m.Match(` + "`probeS()`" + `).Report(` + "`hitS`" + `)
}

//doc:summary experimental style group
//doc:tags    style experimental
//doc:before  x
//doc:after   y
func gX(m dsl.Matcher) {
	m.Match(` + "`probeX()`" + `).Report(` + "`hitX`" + `)
}

//doc:summary diagnostic group
//doc:tags    diagnostic
//doc:before  x
//doc:after   y
func gD(m dsl.Matcher) {
	m.Match(` + "`probeD()`" + `).Report(` + "`hitD`" + `)
}
`

const probeSrc = `package probe

func probe1() {}
func probe2() {}
func probe3() {}
func probeS() {}
func probeX() {}
func probeD() {}

func Use() {
	probe1()
	probe2()
	probe3()
	probeS()
	probeX()
	probeD()
}
`

// ruleload materialises rule-file fault sequences and group filters, constructs the real ruleguard checker through
// linter.NewChecker with the parameter values and, if construction succeeds, runs it on a probe file.
func ruleload(args []string) {
	fs := flag.NewFlagSet("ruleload", flag.ExitOnError)
	in := fs.String("in", "", "cases JSON")
	out := fs.String("out", "", "observations JSON")
	work := fs.String("work", "", "scratch directory")
	fs.Parse(args)
	data, err := os.ReadFile(*in)
	hx.Must(err)
	var cases []ruleCase
	hx.Must(json.Unmarshal(data, &cases))
	hx.Init()

	pdir := filepath.Join(*work, "probe")
	hx.Must(os.MkdirAll(pdir, 0o755))
	hx.Must(os.WriteFile(filepath.Join(pdir, "go.mod"), []byte("module example.com/probe\n\ngo 1.21\n"), 0o644))
	hx.Must(os.WriteFile(filepath.Join(pdir, "probe.go"), []byte(probeSrc), 0o644))
	fset := token.NewFileSet()
	pkgs, err := hx.Load(fset, pdir, false, ".")
	hx.Must(err)
	units := hx.Units(fset, pkgs)
	if len(units) != 1 {
		hx.Fatalf("probe package not loaded")
	}
	u := units[0]
	var rg *linter.CheckerInfo
	for _, inf := range hx.Infos() {
		if inf.Name == "ruleguard" {
			rg = inf
		}
	}
	defaults := map[string]interface{}{}
	for k, p := range rg.Params {
		defaults[k] = p.Value
	}

	var obs []map[string]interface{}
	// cases with the same files and pattern form share one directory, so that the value of the `rules`
	// parameter is the same for them: instantiations that differ only in failOn / enable / disable follow
	// each other in one process (anything remembered per rules value would show)
	dirs := map[string]string{}
	for _, c := range cases {
		key := fmt.Sprint(c.Files, c.Pats, c.Groups)
		d, seen := dirs[key]
		if !seen {
			d = filepath.Join(*work, fmt.Sprintf("c%d", len(dirs)))
			dirs[key] = d
		}
		hx.Must(os.MkdirAll(d, 0o755))
		var paths []string
		if c.Groups {
			p := filepath.Join(d, "r1.go")
			if !seen {
				hx.Must(os.WriteFile(p, []byte(groupsFile), 0o644))
			}
			paths = append(paths, p)
		}
		for j, k := range c.Files {
			if c.Groups {
				break
			}
			p := filepath.Join(d, fmt.Sprintf("r%d.go", j+1))
			if seen {
				// already materialised
			} else if k == "unreadable" {
				hx.Must(os.MkdirAll(p, 0o755)) // a directory: os.ReadFile fails even for root
			} else {
				hx.Must(os.WriteFile(p, []byte(ruleFileSource(k, j+1)), 0o644))
			}
			paths = append(paths, p)
		}
		var pats []string
		switch c.Pats {
		case "glob":
			pats = []string{filepath.Join(d, "r*.go")}
		default:
			pats = paths
		}
		if c.Pats == "nomatch-first" {
			pats = append([]string{filepath.Join(d, "nomatch*.go")}, pats...)
		}
		if c.Pats == "nomatch-last" {
			pats = append(pats, filepath.Join(d, "nomatch*.go"))
		}
		for k, v := range defaults {
			rg.Params[k].Value = v
		}
		rg.Params["rules"].Value = strings.Join(pats, ",")
		fo := append([]string{}, c.FailOn...)
		sort.Strings(fo)
		if c.UnknownTok {
			fo = append(fo, "bogus")
		}
		rg.Params["failOn"].Value = strings.Join(fo, ",")
		rg.Params["failOnError"].Value = c.Legacy
		if c.Enable != nil {
			rg.Params["enable"].Value = strings.Join(c.Enable, ",")
		}
		if c.Disable != nil {
			rg.Params["disable"].Value = strings.Join(c.Disable, ",")
		}
		var logbuf bytes.Buffer
		log.SetOutput(&logbuf)
		o := map[string]interface{}{"id": c.ID}
		func() {
			defer func() {
				if p := recover(); p != nil {
					o["panic"] = fmt.Sprint(p)
				}
			}()
			ctx := linter.NewContext(fset, hx.Sizes)
			ctx.SetPackageInfo(u.Pkg.TypesInfo, u.Pkg.Types)
			ch, err := linter.NewChecker(ctx, rg)
			if err != nil {
				o["initErr"] = err.Error()
				return
			}
			ctx.SetFileInfo(u.Base, u.File)
			var texts []string
			for _, w := range ch.Check(u.File) {
				texts = append(texts, w.Text)
			}
			sort.Strings(texts)
			o["hits"] = texts
		}()
		log.SetOutput(os.Stderr)
		o["skipLogs"] = strings.Count(logbuf.String(), "ruleguard init error, skip")
		o["log"] = logbuf.String()
		obs = append(obs, o)
	}
	for _, d := range dirs {
		os.RemoveAll(d)
	}
	for k, v := range defaults {
		rg.Params[k].Value = v
	}
	b, _ := json.Marshal(obs)
	hx.Must(os.WriteFile(*out, b, 0o644))
}
