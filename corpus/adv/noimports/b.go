// Package noimports has no imports and declares locals spelled like packages another file imported.
package noimports

func B(filepath string, os int) (fmt string) {
	str := filepath
	strings := str
	fmt = strings
	_ = os
	return
}

type T struct{ fmt, os, filepath int }

func (t T) M(fmt int) int { return fmt + t.os }
