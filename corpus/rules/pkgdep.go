//go:build ignore

package gorules

import "github.com/quasilyte/go-ruleguard/dsl"

// Rules whose filters depend on the package being analysed: every front-end must evaluate them
// against the package of the file at hand.
func pkgDependent(m dsl.Matcher) {
	m.Match(`$x = $x + 1`, `$x = $x * 2`).
		Where(m.File().PkgPath.Matches(`/p[13]$`)).
		Report(`pkgdep: self-assignment of $x in an odd package`)
	m.Match(`len($x) >= 0`).
		Where(m.File().PkgPath.Matches(`/p[02]$`) || m.File().Name.Matches(`_test\.go$`)).
		Report(`pkgdep: len of $x in an even package or a test file`)
	m.Match(`func $f($*_) $*_ { $*_ }`).
		Where(m.File().PkgPath.Matches(`_test$`)).
		Report(`pkgdep: function $f in an external test package`)
}
