SPECIFICATION Spec
INVARIANTS OnlyRealByObject
