package hx

import (
	"fmt"
	"go/ast"
	"go/types"
	"reflect"
	"sort"
	"strconv"
	"unsafe"

	"github.com/go-critic/go-critic/linter"
)

// ExpectedImportTables recomputes, independently of the linter, what Context.PkgObjects and
// Context.PkgRenames must contain for file f (linter/linter.go: resolvePkgObjects / resolvePkgRenames).
func ExpectedImportTables(info *types.Info, f *ast.File) (objs []string, renames []string) {
	for _, spec := range f.Imports {
		if spec.Name != nil {
			if o, ok := info.ObjectOf(spec.Name).(*types.PkgName); ok {
				objs = append(objs, fmt.Sprintf("%p=%s", o, spec.Name.Name))
			}
			if p, err := strconv.Unquote(spec.Path.Value); err == nil {
				renames = append(renames, p+"="+spec.Name.Name)
			}
		} else if o, ok := info.Implicits[spec].(*types.PkgName); ok {
			objs = append(objs, fmt.Sprintf("%p=%s", o, o.Name()))
		}
	}
	sort.Strings(objs)
	sort.Strings(renames)
	return objs, renames
}

// ContextImportTablesOK reports whether the shared context describes exactly the imports of f
// (for the tables that the constructed checkers asked for).
func ContextImportTablesOK(c *linter.Context, info *types.Info, f *ast.File) (bool, string) {
	wantO, wantR := ExpectedImportTables(info, f)
	if c.Require.PkgObjects {
		var got []string
		for k, v := range c.PkgObjects {
			got = append(got, fmt.Sprintf("%p=%s", k, v))
		}
		sort.Strings(got)
		if fmt.Sprint(got) != fmt.Sprint(wantO) {
			return false, fmt.Sprintf("Context.PkgObjects has %d entries, the file imports %d packages (stale table of another file?)", len(got), len(wantO))
		}
	}
	if c.Require.PkgRenames {
		var got []string
		for k, v := range c.PkgRenames {
			got = append(got, k+"="+v)
		}
		sort.Strings(got)
		if fmt.Sprint(got) != fmt.Sprint(wantR) {
			return false, fmt.Sprintf("Context.PkgRenames = %v, the file's renamed imports are %v", got, wantR)
		}
	}
	return true, ""
}

// SkipFlagsSet walks the private object graph of a checker (its file walker, the visitor behind it)
// and returns the paths of boolean fields named SkipChilds that are TRUE. The astwalk contract is that
// the flag is consumed right after every visitor invocation, so none may be set when Check returns.
func SkipFlagsSet(c *linter.Checker) (found int, set []string) {
	v := reflect.ValueOf(c).Elem().FieldByName("fileWalker")
	if !v.IsValid() {
		return 0, nil
	}
	seen := map[uintptr]bool{}
	var walk func(v reflect.Value, path string, depth int)
	walk = func(v reflect.Value, path string, depth int) {
		if depth > 6 {
			return
		}
		switch v.Kind() {
		case reflect.Interface, reflect.Ptr:
			if v.IsNil() {
				return
			}
			if v.Kind() == reflect.Ptr {
				if seen[v.Pointer()] {
					return
				}
				seen[v.Pointer()] = true
				// do not wander into shared or foreign structures
				switch v.Type().Elem().PkgPath() {
				case "github.com/go-critic/go-critic/linter", "go/types", "go/token", "go/ast", "github.com/quasilyte/go-ruleguard/ruleguard":
					return
				}
			}
			walk(v.Elem(), path, depth+1)
		case reflect.Struct:
			for i := 0; i < v.NumField(); i++ {
				f := v.Field(i)
				name := v.Type().Field(i).Name
				if !f.CanInterface() && f.CanAddr() {
					f = reflect.NewAt(f.Type(), unsafe.Pointer(f.UnsafeAddr())).Elem()
				}
				if name == "SkipChilds" && f.Kind() == reflect.Bool {
					found++
					if f.Bool() {
						set = append(set, path+"."+name)
					}
					continue
				}
				switch f.Kind() {
				case reflect.Struct, reflect.Ptr, reflect.Interface:
					walk(f, path+"."+name, depth+1)
				}
			}
		}
	}
	if !v.CanInterface() {
		// unexported field of an addressable struct
		v = reflect.NewAt(v.Type(), unsafe.Pointer(v.UnsafeAddr())).Elem()
	}
	walk(v, c.Info.Name, 0)
	return found, set
}
