SPECIFICATION TSpec
INVARIANTS BufEmptyAtBegin FileInPkg InfoIdentityStable CtxImportsCurrent InputsReadOnly
POSTCONDITION Accepted
CHECK_DEADLOCK FALSE
VIEW View
