---------------------------- MODULE AnalyzerWork ----------------------------
(***************************************************************************)
(* checkers/analyzer/run.go, the part of runAnalyzer after prepareGocritic *)
(* (Analyzer.tla models the part before it): the work loop of one pass.    *)
(*                                                                         *)
(*   ctx := NewContext; ctx.SetPackageInfo(pass.TypesInfo, pass.Pkg)       *)
(*   checkers := createCheckers(ctx)           -- Begin(p)                 *)
(*   for f in pass.Files:                                                  *)
(*       ctx.SetFileInfo(base(f), f)           -- SetFile(p)               *)
(*       for c in checkers:                                                *)
(*           ws := c.Check(f)                  -- Check(p, ws)             *)
(*           for w in ws: pass.Report(asDiag(c, w))                        *)
(*   return                                    -- Return(p)                *)
(*   the driver hands act.Diagnostics to its consumer -- Deliver(p)        *)
(*                                                                         *)
(* A driver built on go/packages runs one pass per package *variant*: the  *)
(* non-test files of a package are handed over twice (for `p` and for      *)
(* `p [p.test]`) as the very same syntax trees, but with different type    *)
(* information - in-package test files may add methods.  Verdict[p][f][c]  *)
(* is what checker c says about file f with the types of pass p.           *)
(*                                                                         *)
(* What-if Memo = TRUE: a process-wide table keyed by the syntax tree       *)
(* remembers the diagnostics of a file; a later pass over the same tree    *)
(* replays them instead of checking (a plausible optimisation).  TLC       *)
(* shows that Faithful breaks exactly when some shared file has a verdict  *)
(* that differs between two variants - which is what the conformance       *)
(* corpus (corpus/variants) must therefore contain.                        *)
(***************************************************************************)
EXTENDS Naturals, Sequences, FiniteSets, TLC
CONSTANTS Passes,       \* pass ids
          FilesOf,      \* [Passes -> Seq(file id)]   pass.Files, in order
          Checkers,     \* Seq(checker id)            the selected checkers, in order
          Verdict,      \* [Passes -> [file -> [checker -> Seq(diagnostic)]]]
          Memo          \* BOOLEAN what-if
VARIABLES wpc, fi, ci, out, delivered, memo
wvars == <<wpc, fi, ci, out, delivered, memo>>

AllFiles == UNION { { FilesOf[p][i] : i \in 1..Len(FilesOf[p]) } : p \in Passes }

WInit == /\ wpc = [p \in Passes |-> "idle"]
         /\ fi = [p \in Passes |-> 0] /\ ci = [p \in Passes |-> 0]
         /\ out = [p \in Passes |-> <<>>]
         /\ delivered = [p \in Passes |-> <<>>]
         /\ memo = [f \in {} |-> <<>>]

CurFile(p) == FilesOf[p][fi[p]]

\* the diagnostics of the current file inside a pass' output (they carry the file)
FileDiags(p, o) == SelectSeq(o, LAMBDA d : d.file = CurFile(p))

Begin(p) == /\ wpc[p] = "idle"
            /\ wpc' = [wpc EXCEPT ![p] = "files"] /\ fi' = [fi EXCEPT ![p] = 1] /\ ci' = [ci EXCEPT ![p] = 0]
            /\ UNCHANGED <<out, delivered, memo>>

\* SetFileInfo for the next file of the pass (ci = 0: between files)
SetFile(p) == /\ wpc[p] = "files" /\ ci[p] = 0 /\ fi[p] <= Len(FilesOf[p])
              /\ IF Memo /\ CurFile(p) \in DOMAIN memo
                   THEN /\ out' = [out EXCEPT ![p] = @ \o memo[CurFile(p)]]          \* replay, no walk
                        /\ fi' = [fi EXCEPT ![p] = @ + 1] /\ UNCHANGED ci
                   ELSE /\ ci' = [ci EXCEPT ![p] = 1] /\ UNCHANGED <<out, fi>>
              /\ UNCHANGED <<wpc, delivered, memo>>

\* one Check call returning ws, every warning reported at once to the pass
Check(p, ws) == /\ wpc[p] = "files" /\ ci[p] \in 1..Len(Checkers)
                /\ out' = [out EXCEPT ![p] = @ \o ws]
                /\ IF ci[p] < Len(Checkers)
                     THEN ci' = [ci EXCEPT ![p] = @ + 1] /\ UNCHANGED <<fi, memo>>
                     ELSE /\ ci' = [ci EXCEPT ![p] = 0] /\ fi' = [fi EXCEPT ![p] = @ + 1]
                          /\ memo' = IF Memo THEN [f \in DOMAIN memo \cup {CurFile(p)} |->
                                                     IF f = CurFile(p) THEN FileDiags(p, out'[p]) ELSE memo[f]]
                                             ELSE memo
                /\ UNCHANGED <<wpc, delivered>>

ModelCheck(p) == /\ wpc[p] = "files" /\ ci[p] \in 1..Len(Checkers)
                 /\ Check(p, Verdict[p][CurFile(p)][Checkers[ci[p]]])

Return(p) == /\ wpc[p] = "files" /\ ci[p] = 0 /\ fi[p] = Len(FilesOf[p]) + 1
             /\ wpc' = [wpc EXCEPT ![p] = "returned"] /\ UNCHANGED <<fi, ci, out, delivered, memo>>

Deliver(p) == /\ wpc[p] = "returned"
              /\ delivered' = [delivered EXCEPT ![p] = out[p]] /\ wpc' = [wpc EXCEPT ![p] = "delivered"]
              /\ UNCHANGED <<fi, ci, out, memo>>

WNext == \E p \in Passes : Begin(p) \/ SetFile(p) \/ ModelCheck(p) \/ Return(p) \/ Deliver(p)
WSpec == WInit /\ [][WNext]_wvars

\* what a fresh analysis of pass p alone yields
\* (divide and conquer: a linear recursion over a hundred checkers overflows TLC's evaluation stack)
RECURSIVE FlatC(_, _, _, _), FlatF(_, _, _)
FlatC(p, f, lo, hi) == IF lo > hi THEN <<>>
                       ELSE IF lo = hi THEN Verdict[p][f][Checkers[lo]]
                       ELSE LET mid == (lo + hi) \div 2 IN FlatC(p, f, lo, mid) \o FlatC(p, f, mid + 1, hi)
FlatF(p, lo, hi) == IF lo > hi THEN <<>>
                    ELSE IF lo = hi THEN FlatC(p, FilesOf[p][lo], 1, Len(Checkers))
                    ELSE LET mid == (lo + hi) \div 2 IN FlatF(p, lo, mid) \o FlatF(p, mid + 1, hi)
ExpectedOf == [p \in Passes |-> FlatF(p, 1, Len(FilesOf[p]))]      \* constant level: TLC evaluates it once
Expected(p) == ExpectedOf[p]

\* the diagnostics delivered for a pass are those of its own files with its own types
Faithful == \A p \in Passes : wpc[p] = "delivered" => delivered[p] = Expected(p)
\* every prefix of the output is a prefix of the expected output (nothing foreign is ever reported)
IsPrefix(s, t) == Len(s) <= Len(t) /\ \A i \in 1..Len(s) : s[i] = t[i]
NothingForeign == \A p \in Passes : IsPrefix(out[p], Expected(p))
\* a pass returns only after all of its files went through all checkers
Complete == \A p \in Passes : wpc[p] \in {"returned", "delivered"} => fi[p] = Len(FilesOf[p]) + 1
WLive == WSpec /\ \A p \in Passes : WF_wvars(Begin(p) \/ SetFile(p) \/ ModelCheck(p) \/ Return(p) \/ Deliver(p))
AllDelivered == <>(\A p \in Passes : wpc[p] = "delivered")
=============================================================================
