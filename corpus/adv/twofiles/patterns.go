// Package twofiles: declarations in one file, uses in another (constants, types and their methods, build constraints).
package twofiles

const (
	dupCharPat  = `[aab]+`
	badFlagPat  = `(?i)(?i)x`
	rangePat    = `[a-a]`
	goodPat     = `^[a-z]+$`
	longAltPat  = `foo|foo|bar`
	formatWords = "%d items in %s"
)

type Shape struct{ w, h int }

type reader interface{ Read() int }
