---------------------------- MODULE ConfigErrors ----------------------------
(***************************************************************************)
(* The configuration pipeline of the front-ends as a state machine, with   *)
(* one error exit per step (cmd/go-critic/check.go runCheck: bind params,  *)
(* bind default list, parse args, assign params, load program [context +   *)
(* SetGoVersion], init checkers [selection + construction], run; and       *)
(* checkers/analyzer: flag parsing by the driver, then per package         *)
(* runAnalyzer -> prepareGocritic [latch / cache / newGocritic] ->         *)
(* createCheckers -> check).                                               *)
(*                                                                         *)
(* A case = (front-end, invalid-configuration class, number of packages).  *)
(* The case is the initial state; the run is deterministic for the CLI and *)
(* ordered by package for the analyzer (the interleavings of concurrent    *)
(* passes are Analyzer.tla's business).                                    *)
(*                                                                         *)
(* Code-behaviour constants (TRUE = the intended design; each FALSE value  *)
(* is a behaviour observed on the pinned tree and is refuted here):        *)
(*   CLIValidatesVersion  the CLI returns an error for a malformed -go     *)
(*                        (FALSE: Context.SetGoVersion panics)             *)
(*   LatchReturnsError    a re-entered analyzer pass is skipped (the error *)
(*                        was reported) (FALSE: returns neither -> nil     *)
(*                        dereference)                                     *)
(*   AnalyzerRejectsEmpty an empty selection is an init error in the       *)
(*                        analyzer (FALSE: runs nothing, exits 0)          *)
(***************************************************************************)
EXTENDS Naturals, Sequences, FiniteSets, TLC
CONSTANTS MaxPkgs, CLIValidatesVersion, LatchReturnsError, AnalyzerRejectsEmpty

FrontEnds == {"cli", "twin", "analysis", "twin-analysis"}
IsCLI(fe) == fe \in {"cli", "twin"}
Classes == {"valid", "badGoVersion", "unknownFailOn", "unknownFailOnLegacy", "noMatchPattern", "emptySelection", "badParamValue", "unknownFlag"}
\* which step detects the class (documented): flag errors at parse time, version at load/init, the rest at init
DocStep(c) == CASE c \in {"badParamValue", "unknownFlag"} -> "parse"
                [] c = "badGoVersion" -> "version"
                [] c = "emptySelection" -> "select"
                [] c \in {"unknownFailOn", "unknownFailOnLegacy", "noMatchPattern"} -> "construct"
                [] OTHER -> "none"

VARIABLES fe, class, npkgs,        \* the case
          pc, pkg, latch, outcome, analysed, msgs
vars == <<fe, class, npkgs, pc, pkg, latch, outcome, analysed, msgs>>

Init == /\ fe \in FrontEnds /\ class \in Classes /\ npkgs \in 1..MaxPkgs
        /\ pc = "parse" /\ pkg = 1 /\ latch = FALSE /\ outcome = "running" /\ analysed = 0 /\ msgs = 0

Fail(kind) == outcome' = kind /\ pc' = "done"
Stay == UNCHANGED <<fe, class, npkgs>>

\* ---- CLI -------------------------------------------------------------------
CParse == /\ IsCLI(fe) /\ pc = "parse"
          /\ IF DocStep(class) = "parse" THEN Fail("error") /\ msgs' = msgs + 1 /\ UNCHANGED <<pkg, latch, analysed>>
             ELSE pc' = "version" /\ UNCHANGED <<pkg, latch, outcome, analysed, msgs>>
          /\ Stay
CVersion == /\ IsCLI(fe) /\ pc = "version"        \* loadProgram: NewContext + SetGoVersion
            /\ IF class = "badGoVersion"
               THEN IF CLIValidatesVersion THEN Fail("error") /\ msgs' = msgs + 1 ELSE Fail("PANIC") /\ UNCHANGED msgs
               ELSE pc' = "select" /\ UNCHANGED <<outcome, msgs>>
            /\ UNCHANGED <<pkg, latch, analysed>> /\ Stay
CSelect == /\ IsCLI(fe) /\ pc = "select"           \* initCheckers: filter, construct, empty check
           /\ IF class \in {"unknownFailOn", "unknownFailOnLegacy", "noMatchPattern", "emptySelection"}
              THEN Fail("error") /\ msgs' = msgs + 1
              ELSE pc' = "run" /\ UNCHANGED <<outcome, msgs>>
           /\ UNCHANGED <<pkg, latch, analysed>> /\ Stay
CRun == /\ IsCLI(fe) /\ pc = "run"
        /\ IF pkg <= npkgs THEN pkg' = pkg + 1 /\ analysed' = analysed + 1 /\ UNCHANGED <<pc, outcome>>
           ELSE pc' = "done" /\ outcome' = "ok" /\ UNCHANGED <<pkg, analysed>>
        /\ UNCHANGED <<latch, msgs>> /\ Stay

\* ---- analysis drivers ----------------------------------------------------------
AParse == /\ ~IsCLI(fe) /\ pc = "parse"            \* flag.Parse by singlechecker
          /\ IF DocStep(class) = "parse" THEN Fail("error") /\ msgs' = msgs + 1 /\ UNCHANGED <<pkg, latch, analysed>>
             ELSE pc' = "pass" /\ UNCHANGED <<pkg, latch, outcome, analysed, msgs>>
          /\ Stay
InitInvalid == \/ class = "badGoVersion"
               \/ (class = "emptySelection" /\ AnalyzerRejectsEmpty)
\* one pass: prepareGocritic (latch / cache / newGocritic), createCheckers, check
APass == /\ ~IsCLI(fe) /\ pc = "pass" /\ pkg <= npkgs
         /\ IF latch THEN                                   \* re-entered after a reported init error
                IF LatchReturnsError THEN pkg' = pkg + 1 /\ UNCHANGED <<pc, outcome, latch, analysed, msgs>>
                ELSE Fail("PANIC") /\ UNCHANGED <<pkg, latch, analysed, msgs>>
            ELSE IF InitInvalid THEN latch' = TRUE /\ msgs' = msgs + 1 /\ pkg' = pkg + 1 /\ UNCHANGED <<pc, outcome, analysed>>
            ELSE IF class \in {"unknownFailOn", "unknownFailOnLegacy", "noMatchPattern"} THEN     \* createCheckers fails in every pass
                msgs' = msgs + 1 /\ pkg' = pkg + 1 /\ UNCHANGED <<pc, outcome, latch, analysed>>
            ELSE IF class = "emptySelection" THEN pkg' = pkg + 1 /\ UNCHANGED <<pc, outcome, latch, analysed, msgs>>   \* runs nothing
            ELSE pkg' = pkg + 1 /\ analysed' = analysed + 1 /\ UNCHANGED <<pc, outcome, latch, msgs>>
         /\ Stay
AFinish == /\ ~IsCLI(fe) /\ pc = "pass" /\ pkg > npkgs
           /\ pc' = "done" /\ outcome' = IF msgs > 0 THEN "error" ELSE "ok"
           /\ UNCHANGED <<pkg, latch, analysed, msgs>> /\ Stay

Next == CParse \/ CVersion \/ CSelect \/ CRun \/ AParse \/ APass \/ AFinish
Spec == Init /\ [][Next]_vars

\* ---- the property -----------------------------------------------------------------
NoPanic == outcome # "PANIC"
CleanFailure == pc = "done" => IF class = "valid" THEN outcome = "ok" /\ analysed = npkgs
                               ELSE outcome = "error" /\ analysed = 0 /\ msgs >= 1
Conforms == NoPanic /\ CleanFailure
=============================================================================
