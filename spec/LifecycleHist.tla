---------------------------- MODULE LifecycleHist ----------------------------
(* Lifecycle with a history variable: the sequence of files visited so far.   *)
(* Used with `tlc -simulate` to export behaviours (visit sequences) that the   *)
(* harness replays on the real long-lived checker set.                         *)
EXTENDS Lifecycle

HCheckers == {"c1"}
HPkgs == {"p", "q", "r"}
HFiles == {"f1", "f2", "f3", "f4", "f5"}
HPkgOf == [f \in HFiles |-> CASE f \in {"f1", "f2"} -> "p" [] f = "f3" -> "q" [] OTHER -> "r"]
HDiag == [x \in HCheckers \X HFiles |-> <<x[2]>>]
HNone == [x \in HCheckers \X HFiles |-> {}]
HHasImports == [f \in HFiles |-> TRUE]

VARIABLE trail
HInit == Init /\ trail = <<>>
\* every visit is followed by a complete Check of the (single abstract) checker before the next context switch
HNext == /\ Next
         /\ (last'[1] = "file" => last[1] # "file")
         /\ (last'[1] = "pkg" => last[1] # "pkg")
         /\ trail' = IF last'[1] = "file" THEN Append(trail, last'[2]) ELSE trail
HSpec == HInit /\ [][HNext]_<<vars, trail>>
\* "violated" when a behaviour with MaxVisits visits is complete: the counterexample is the exported behaviour
HDone == Len(trail) < 6
=============================================================================
