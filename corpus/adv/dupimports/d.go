// Package dupimports: several groups of duplicated imports, shadowed imports and identical-message triggers
// (the order of diagnostics must not depend on map iteration).
package dupimports

import (
	"fmt"
	f2 "fmt"
	f3 "fmt"
	"os"
	o2 "os"
	"strings"
	s2 "strings"
	s3 "strings"
	"sort"
	so2 "sort"
	"bytes"
	b2 "bytes"
)

func Use(os_ int) {
	fmt.Println(f2.Sprint(), f3.Sprint(), os.Args, o2.Args, strings.ToUpper(""), s2.ToUpper(""), s3.ToUpper(""))
	sort.Ints(nil)
	so2.Ints(nil)
	_ = bytes.NewBuffer(nil)
	_ = b2.NewBuffer(nil)
}

func shadows(fmt, os, strings, sort, bytes int) int {
	return fmt + os + strings + sort + bytes
}

func shadows2() {
	fmt, os, strings, sort, bytes := 1, 2, 3, 4, 5
	_, _, _, _, _ = fmt, os, strings, sort, bytes
}

func same(x, y int, xs []int) {
	x = x + 1
	y = y + 1
	x = x + 1
	y = y + 1
	_ = len(xs) >= 0
	_ = len(xs) >= 0
	_ = len(xs) >= 0
}
