----------------------------- MODULE Determinism -----------------------------
(***************************************************************************)
(* Two runs of one checker on the same input (self-composition).  The only *)
(* freedom a checker has is the order in which it visits the keys of a Go  *)
(* map while emitting; Discipline says how the emission order is chosen:   *)
(*   "traversal"  in source order (AST walk)                               *)
(*   "mapIter"    range over a map, emit inside the loop                   *)
(*   "sortedAfter" collect, sort by a total key, emit                      *)
(* Deterministic: both runs produce the same sequence.                     *)
(***************************************************************************)
EXTENDS Naturals, Sequences, FiniteSets, TLC
CONSTANTS Keys, Discipline
VARIABLES left1, left2, out1, out2
vars == <<left1, left2, out1, out2>>
SrcOrder == CHOOSE s \in [1..Cardinality(Keys) -> Keys] : \A i, j \in DOMAIN s : i # j => s[i] # s[j]
Pos(k) == CHOOSE i \in DOMAIN SrcOrder : SrcOrder[i] = k
Init == left1 = Keys /\ left2 = Keys /\ out1 = <<>> /\ out2 = <<>>
Pick(left) == IF Discipline = "mapIter" THEN left
              ELSE { k \in left : \A j \in left : Pos(k) <= Pos(j) }     \* deterministic next key
Emit1 == \E k \in Pick(left1) : left1' = left1 \ {k} /\ out1' = Append(out1, k) /\ UNCHANGED <<left2, out2>>
Emit2 == \E k \in Pick(left2) : left2' = left2 \ {k} /\ out2' = Append(out2, k) /\ UNCHANGED <<left1, out1>>
Next == Emit1 \/ Emit2
Spec == Init /\ [][Next]_vars
Deterministic == (left1 = {} /\ left2 = {}) => out1 = out2
=============================================================================
