------------------------------ MODULE Analyzer ------------------------------
(***************************************************************************)
(* checkers/analyzer/run.go: concurrent go/analysis passes sharing a       *)
(* mutex-protected cached configuration (globalGocritic) and an "init      *)
(* error already reported" latch (globalInitErrorReported).                *)
(*   runAnalyzer(pass): prepareGocritic() -> (critic, err);                *)
(*     err # nil -> return "init error"; otherwise critic is dereferenced  *)
(*     (goVersion, createCheckers) and the files are checked.              *)
(*   prepareGocritic: Lock; latch -> return (nil, nil);                    *)
(*     cached -> return it; newGocritic (writes Params of the shared       *)
(*     CheckerInfo objects, under the mutex) -> cache or set the latch.    *)
(* LatchSkips = TRUE: runAnalyzer skips the package when the latch is set    *)
(* (critic = nil, err = nil); FALSE is the behaviour of the pinned tree      *)
(* before the fix: the nil configuration was dereferenced.                   *)
(***************************************************************************)
EXTENDS Naturals, FiniteSets, TLC
CONSTANTS Passes, InitFails, LatchSkips,
          UnlockAlways      \* the mutex is released on every return path of prepareGocritic (defer); what-if FALSE: not when the latch is hit
VARIABLES mu, cached, latch, ppc, got, paramsWrittenBy, readingParams
vars == <<mu, cached, latch, ppc, got, paramsWrittenBy, readingParams>>
Free == 0

Init == /\ mu = Free /\ cached = FALSE /\ latch = FALSE
        /\ ppc = [p \in Passes |-> "idle"] /\ got = [p \in Passes |-> "none"]
        /\ paramsWrittenBy = {} /\ readingParams = {}

Enter(p)  == ppc[p] = "idle" /\ ppc' = [ppc EXCEPT ![p] = "enter"]
             /\ UNCHANGED <<mu, cached, latch, got, paramsWrittenBy, readingParams>>
Lock(p)   == ppc[p] = "enter" /\ mu = Free /\ mu' = p /\ ppc' = [ppc EXCEPT ![p] = "locked"]
             /\ UNCHANGED <<cached, latch, got, paramsWrittenBy, readingParams>>
LatchHit(p) == /\ ppc[p] = "locked" /\ latch
               /\ got' = [got EXCEPT ![p] = IF LatchSkips THEN "skip" ELSE "neither"]
               /\ ppc' = [ppc EXCEPT ![p] = IF UnlockAlways THEN "unlock" ELSE "prepared"] /\ UNCHANGED <<mu, cached, latch, paramsWrittenBy, readingParams>>
CacheHit(p) == /\ ppc[p] = "locked" /\ ~latch /\ cached
               /\ got' = [got EXCEPT ![p] = "cfg"]
               /\ ppc' = [ppc EXCEPT ![p] = "unlock"] /\ UNCHANGED <<mu, cached, latch, paramsWrittenBy, readingParams>>
InitOK(p)   == /\ ppc[p] = "locked" /\ ~latch /\ ~cached /\ ~InitFails
               /\ paramsWrittenBy' = paramsWrittenBy \cup {p}     \* newGocritic writes Params under mu
               /\ cached' = TRUE /\ got' = [got EXCEPT ![p] = "cfg"]
               /\ ppc' = [ppc EXCEPT ![p] = "unlock"] /\ UNCHANGED <<mu, latch, readingParams>>
InitFail(p) == /\ ppc[p] = "locked" /\ ~latch /\ ~cached /\ InitFails
               /\ latch' = TRUE /\ got' = [got EXCEPT ![p] = "err"]
               /\ ppc' = [ppc EXCEPT ![p] = "unlock"] /\ UNCHANGED <<mu, cached, paramsWrittenBy, readingParams>>
Unlock(p)   == ppc[p] = "unlock" /\ mu = p /\ mu' = Free /\ ppc' = [ppc EXCEPT ![p] = "prepared"]
               /\ UNCHANGED <<cached, latch, got, paramsWrittenBy, readingParams>>
\* runAnalyzer after prepareGocritic
ReturnErr(p) == ppc[p] = "prepared" /\ got[p] = "err" /\ ppc' = [ppc EXCEPT ![p] = "returnedErr"]
                /\ UNCHANGED <<mu, cached, latch, got, paramsWrittenBy, readingParams>>
Skip(p)      == ppc[p] = "prepared" /\ got[p] = "skip" /\ ppc' = [ppc EXCEPT ![p] = "returnedSkip"]
                /\ UNCHANGED <<mu, cached, latch, got, paramsWrittenBy, readingParams>>
Deref(p)     == ppc[p] = "prepared" /\ got[p] = "neither" /\ ppc' = [ppc EXCEPT ![p] = "PANIC"]  \* critic.goVersion on nil
                /\ UNCHANGED <<mu, cached, latch, got, paramsWrittenBy, readingParams>>
Create(p)    == ppc[p] = "prepared" /\ got[p] = "cfg" /\ readingParams' = readingParams \cup {p}
                /\ ppc' = [ppc EXCEPT ![p] = "checking"] /\ UNCHANGED <<mu, cached, latch, got, paramsWrittenBy>>
Finish(p)    == ppc[p] = "checking" /\ readingParams' = readingParams \ {p}
                /\ ppc' = [ppc EXCEPT ![p] = "returnedOK"] /\ UNCHANGED <<mu, cached, latch, got, paramsWrittenBy>>
CreateErr(p) == ppc[p] = "checking" /\ readingParams' = readingParams \ {p}
                /\ ppc' = [ppc EXCEPT ![p] = "returnedErr"] /\ UNCHANGED <<mu, cached, latch, got, paramsWrittenBy>>

Next == \E p \in Passes : Enter(p) \/ Lock(p) \/ LatchHit(p) \/ CacheHit(p) \/ InitOK(p) \/ InitFail(p) \/ Unlock(p)
                          \/ ReturnErr(p) \/ Skip(p) \/ Deref(p) \/ Create(p) \/ Finish(p) \/ CreateErr(p)
Spec == Init /\ [][Next]_vars

NoPanic == \A p \in Passes : ppc[p] # "PANIC"
CfgOrErr == \A p \in Passes : ppc[p] = "prepared" => got[p] \in {"cfg", "err", "skip"}
NoPartial == InitFails => \A p \in Passes : ppc[p] \notin {"checking", "returnedOK"}
\* a pass never reads Params while another pass is inside the (locked) writer section
NoParamRace == \A p \in Passes : (ppc[p] = "locked" /\ ~cached /\ ~latch /\ ~InitFails) => readingParams = {}
WrittenOnce == Cardinality(paramsWrittenBy) <= 1
MutexOK == mu # Free => ppc[mu] \in {"locked", "unlock"}
\* the init error is reported by exactly one pass, all the others skip their package
Returned == {"returnedOK", "returnedErr", "returnedSkip"}
ErrReportedOnce == (\A p \in Passes : ppc[p] \in Returned) =>
                     Cardinality({ p \in Passes : got[p] = "err" }) = (IF InitFails THEN 1 ELSE 0)
\* liveness: every pass returns (weak fairness of each pass, strong fairness of taking the mutex)
Step(p) == Enter(p) \/ LatchHit(p) \/ CacheHit(p) \/ InitOK(p) \/ InitFail(p) \/ Unlock(p)
           \/ ReturnErr(p) \/ Skip(p) \/ Deref(p) \/ Create(p) \/ Finish(p) \/ CreateErr(p)
LiveSpec == Spec /\ \A p \in Passes : WF_vars(Step(p)) /\ SF_vars(Lock(p))
AllReturn == <>(\A p \in Passes : ppc[p] \in Returned \cup {"PANIC"})
=============================================================================
