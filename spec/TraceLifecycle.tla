--------------------------- MODULE TraceLifecycle ---------------------------
(***************************************************************************)
(* Validates recorded executions of the real linter (NDJSON, one event per  *)
(* Lifecycle action, produced by the harness through the `verif` hooks in   *)
(* linter/) against the Lifecycle module itself: the module is instantiated *)
(* with constants computed from the trace and its own actions are conjoined *)
(* with the logged fields.                                                  *)
(*                                                                          *)
(* Events:                                                                  *)
(*   Reset                         a new long-lived checker set / context   *)
(*   SetPkg   pkg infoSame         Context.SetPackageInfo returned          *)
(*   SetFile  pkg file             Context.SetFileInfo returned             *)
(*   CheckBegin c bufLen           after the buffer reset in Checker.Check  *)
(*   Walked  c file got fresh fpSame warnOK   the walk is over (hook just   *)
(*        before Check returns). got/fresh: digests of the buffer and of    *)
(*        what a fresh instance returns for the same file; fpSame:          *)
(*        structural fingerprint of tree, type info, context and registry   *)
(*        unchanged; warnOK: the C07 obligations hold for every warning     *)
(*   CheckEnd c ret                 Check returned; ret: digest of result   *)
(* A Check that panics or exceeds its deadline has no CheckEnd: the next    *)
(* event then finds the checker still "walking" and the trace is rejected.  *)
(***************************************************************************)
EXTENDS Naturals, Sequences, FiniteSets, TLC, Json, IOUtils

TraceFile == IF "TRACE" \in DOMAIN IOEnv THEN IOEnv.TRACE ELSE "trace.ndjson"
Trace == ndJsonDeserialize(TraceFile)

Idx(e) == { i \in 1..Len(Trace) : Trace[i].ev = e }
TCheckers == { Trace[i].c : i \in Idx("CheckBegin") }
TFiles    == { Trace[i].file : i \in Idx("SetFile") }
TPkgs     == { Trace[i].pkg : i \in Idx("SetPkg") }
FileIdx   == Idx("SetFile")
TPkgOf    == [ f \in TFiles |-> Trace[CHOOSE i \in FileIdx : Trace[i].file = f].pkg ]
TNoTokens == [ x \in TCheckers \X TFiles |-> {} ]
TNoDiag   == [ x \in TCheckers \X TFiles |-> <<>> ]     \* unused: the reference travels with each CheckEnd

VARIABLES ctxPkg, ctxFile, ctxImports, infoId, captured, tree, buf, scratch, cpc, ret, last, steps, l

L == INSTANCE Lifecycle WITH Checkers <- TCheckers, Pkgs <- TPkgs, Files <- TFiles, PkgOf <- TPkgOf,
       Diag <- TNoDiag, Residue <- TNoTokens, Sensitive <- TNoTokens, Rewriters <- {}, HasImports <- [f \in TFiles |-> TRUE], RebuildImports <- TRUE,
       ResetBuf <- TRUE, ResetScratch <- TRUE, InPlaceInfo <- TRUE, CopiesFirst <- TRUE, MaxHist <- 0

lvars == <<ctxPkg, ctxFile, ctxImports, infoId, captured, tree, buf, scratch, cpc, ret, last, steps>>
tvars == <<ctxPkg, ctxFile, ctxImports, infoId, captured, tree, buf, scratch, cpc, ret, last, steps, l>>

IsEv(e) == l <= Len(Trace) /\ Trace[l].ev = e /\ l' = l + 1
T == Trace[l]

TInit == L!Init /\ l = 1

\* a new long-lived set: everything back to the initial state
TReset == /\ IsEv("Reset")
          /\ ctxPkg' = L!None /\ ctxFile' = L!None /\ ctxImports' = L!None /\ infoId' = 0
          /\ captured' = [c \in TCheckers |-> 0]
          /\ tree' = [f \in TFiles |-> "orig"]
          /\ buf' = [c \in TCheckers |-> <<>>] /\ scratch' = [c \in TCheckers |-> {}]
          /\ cpc' = [c \in TCheckers |-> "idle"] /\ ret' = [c \in TCheckers |-> <<>>]
          /\ last' = <<"init">> /\ steps' = 0

TSetPkg  == /\ IsEv("SetPkg") /\ L!SetPackageInfo(T.pkg)
            /\ infoId' = IF T.infoSame THEN infoId ELSE infoId + 1      \* logged: identity of ctx.TypesInfo
\* ctxOK: the import tables of the context (PkgObjects, PkgRenames) are exactly those of this file
TSetFile == /\ IsEv("SetFile") /\ T.pkg = ctxPkg /\ L!SetFileInfo(T.file)
            /\ ctxImports' = IF T.ctxOK THEN T.file ELSE "stale"
TBegin   == IsEv("CheckBegin") /\ L!CheckBegin(T.c) /\ Len(buf'[T.c]) = T.bufLen
\* the walk has finished (hook before Check returns): the buffer content is logged, and the reference result
\* of a fresh instance travels with the event
TWalked  == /\ IsEv("Walked") /\ T.file = ctxFile
            /\ L!WalkRef(T.c, <<T.fresh>>)
            /\ buf'[T.c] = <<T.got>>                                     \* C03: logged buffer = what the module computes
            /\ T.warnOK                                                  \* C07 obligations of every warning
            /\ T.fpSame                                                  \* C05 frame condition (tree' = tree in WalkRef)
            /\ T.skipClear                                               \* the one-shot SkipChilds flag of the walker is consumed
TEnd     == /\ IsEv("CheckEnd") /\ L!CheckEnd(T.c)
            /\ ret'[T.c] = <<T.ret>>                                     \* what Check returned is the buffer

TNext == TReset \/ TSetPkg \/ TSetFile \/ TBegin \/ TWalked \/ TEnd
TSpec == TInit /\ [][TNext]_tvars

\* invariants of the design module evaluated in every state of the trace
BufEmptyAtBegin == L!BufEmptyAtBegin
FileInPkg == L!FileInPkg
InfoIdentityStable == L!InfoIdentityStable
CtxImportsCurrent == L!CtxImportsCurrent
InputsReadOnly == L!InputsReadOnly

\* acceptance: every line consumed (one state per line plus the initial state; the trace spec is deterministic)
Accepted == TLCGet("stats").diameter - 1 = Len(Trace)
View == l
=============================================================================
