"""C14 - checker parameters take effect exactly; thresholds act monotonically.

Spec: Params.tla. Part 1 (SpecFlow): the parameter flow Registered -> Bind -> Parse -> Assign -> Construct on the CLI / analyzer
paths and Override -> Construct on the integrator path, for an int and a bool parameter: UsedIsConfigured (what-if "bools are
not assigned" refuted). Part 2 (SpecThreshold): the documented threshold predicates for every (checker, measure m, threshold n):
Monotone and Boundary; the predictions are exported. Binding: constructs of measure exactly m are generated per parameterised
checker (struct of m bytes, m results, m-statement body, m else branches, m-rune comment) and analysed at every n through the
integrator path (Override, in process); the same workspace is given to the real go-critic / gocritic binaries (-@c.p=n) and the
real analysis binaries; the three observations must agree with the prediction and with each other. Boolean parameters must
change the outcome on a discriminating construct on every path; byte sizes quoted in messages are compared with types.Sizes.
"""
import collections
import json
import os
import re
import subprocess

import vlib

PCFG = """SPECIFICATION %s
CONSTANTS
  MaxM = %d
  AssignBools = %s
INVARIANTS %s
"""
PARAM = {"hugeParam": "sizeThreshold", "rangeValCopy": "sizeThreshold", "rangeExprCopy": "sizeThreshold", "tooManyResultsChecker": "maxResults",
         "nestingReduce": "bodyWidth", "ifElseChain": "minThreshold", "commentedOutCode": "minLength"}
TAGOF = {"hugeParam": "performance", "rangeValCopy": "performance", "rangeExprCopy": "performance", "tooManyResultsChecker": "style",
         "nestingReduce": "style", "ifElseChain": "style", "commentedOutCode": "diagnostic"}
BOOLS = [("captLocal", "paramsOnly"), ("elseif", "skipBalanced"), ("underef", "skipRecvDeref"), ("unnamedResult", "checkExported"), ("truncateCmp", "skipArchDependent"),
         ("rangeValCopy", "skipTestFuncs"), ("rangeExprCopy", "skipTestFuncs")]
LINE = re.compile(r"^(.*?\.go):(\d+):(\d+): (\w+): (.*)$")


def run(ctx):
    thorough = ctx.tier == "thorough"
    maxm = 6
    design = {}
    r = ctx.tlc("Params", cfg_text=PCFG % ("SpecFlow", maxm, "TRUE", "UsedIsConfigured"), workers=2, timeout=300, expect="ok")
    design["flow_states"] = r.distinct
    r = ctx.tlc("Params", cfg_text=PCFG % ("SpecFlow", maxm, "FALSE", "UsedIsConfigured"), workers=2, timeout=300, expect="violation")
    design["whatif_bools_not_assigned"] = r.violated
    r = ctx.tlc("Params", cfg_text=PCFG % ("SpecThreshold", maxm, "TRUE", "Monotone Boundary"), workers=2, timeout=300, dump="params_thr", expect="ok")
    design["threshold_cases"] = r.distinct
    pred = {}
    for s in vlib.parse_dump(ctx.spec_path("params_thr.dump")):
        pred[(s["tc"], s["tm"], s["tn"])] = s["tpred"]

    work = os.path.join(ctx.scratch, "params_ws")
    outp = ctx.path("params_out.json")
    ctx.run_vh(["params", "-work", work, "-maxm", str(maxm), "-out", outp])
    obs = json.load(open(outp))
    table = collections.defaultdict(dict)
    evaluated = 0
    lines_at = collections.defaultdict(dict)
    for o in obs:
        if o["m"] > 0:
            table[o["checker"]][(o["m"], int(o["value"]))] = o["reported"]
            lines_at[(o["checker"], o["m"])][int(o["value"])] = sorted(o.get("lines") or [])
            # one measured construct per file: several diagnostics for it are unusual but not excluded by the property (noted only;
            # what the property demands - diagnostics nested along the threshold - is judged below on the sets of lines)
            if len(o.get("lines") or []) > 1:
                ctx.notes.append("%s.%s=%s reports the single construct of measure %d %d times" % (o["checker"], o["param"], o["value"], o["m"], len(o["lines"])))
    # relaxing a threshold never adds a diagnostic line, tightening never removes one (the set of lines, not only 'any')
    for (c, m), by_n in lines_at.items():
        ns_ = sorted(by_n)
        for a, b in zip(ns_, ns_[1:]):
            la, lb = set(by_n[a]), set(by_n[b])
            if not (la <= lb or lb <= la):
                ctx.fail("NotMonotone %s lines" % c, "%s.%s: the diagnostics at %d (lines %s) and at %d (lines %s) on the construct of measure %d are not nested"
                         % (c, PARAM[c], a, sorted(la), b, sorted(lb), m), {"checker": c, "m": m})
    # (1) integrator path vs the specification's predictions
    for c, t in table.items():
        off = 5 if c == "commentedOutCode" else 0      # measure of the comment construct starts at 6 runes
        for (m, n), got in sorted(t.items()):
            evaluated += 1
            if c in ("ifElseChain", "commentedOutCode"):
                continue
            want = pred.get((c, m - off, n - off))
            if want is None:
                continue
            if got != want:
                ctx.fail("Threshold %s" % c, "%s.%s=%d on a construct measuring exactly %d: %s, documented: %s"
                         % (c, PARAM[c], n, m, "reported" if got else "not reported", "reported" if want else "not reported"), {"checker": c, "m": m, "n": n})
        # monotone single step for every checker (incl. the two whose wording is not exact)
        ms = sorted({k[0] for k in t})
        ns = sorted({k[1] for k in t})
        for m in ms:
            col = [t[(m, n)] for n in ns]
            if any((not col[i]) and col[i + 1] for i in range(len(col) - 1)):
                ctx.fail("NotMonotone %s" % c, "%s: relaxing %s adds a diagnostic for measure %d: %s" % (c, PARAM[c], m, list(zip(ns, col))), {"checker": c, "m": m})
        for n in ns:
            row = [t[(m, n)] for m in ms]
            if any(row[i] and not row[i + 1] for i in range(len(row) - 1)):
                ctx.fail("NotMonotone %s" % c, "%s: at %s=%d a larger construct is not reported while a smaller one is: %s" % (c, PARAM[c], n, list(zip(ms, row))), {"checker": c, "n": n})
        if not any(t.values()) or all(t.values()):
            raise vlib.Infra("threshold sweep of %s is vacuous" % c)
    # booleans take effect (integrator path)
    bobs = {(o["checker"], o["value"]): o for o in obs if o["m"] == 0}
    for c, p in BOOLS:
        evaluated += 1
        if sorted(bobs[(c, "true")]["lines"] or []) == sorted(bobs[(c, "false")]["lines"] or []):
            ctx.fail("BoolInert %s" % c, "%s.%s has no effect on the discriminating construct through Override" % (c, p), {"checker": c})
    # sizes quoted in messages
    sizes = 0
    for o in obs:
        for s in o.get("sizes") or []:
            qd, real = s.split("/")
            sizes += 1
            if real != "-1" and qd != real:
                ctx.fail("SizeQuoted %s" % o["checker"], "%s quotes %s bytes, the platform size of the type is %s (%s)" % (o["checker"], qd, real, o["texts"][:1]), {"obs": o})

    # (2) the real binaries on the same workspace
    bins = {"cli": ctx.build_repo_bin("cmd/go-critic"), "analysis": ctx.build_repo_bin("cmd/go-critic-analysis")}
    if thorough:
        bins["twin"] = ctx.build_repo_bin("cmd/gocritic")
        bins["twin-analysis"] = ctx.build_repo_bin("cmd/gocritic-analysis")
    runs = 0
    for c in PARAM:
        ms = sorted({k[0] for k in table[c]})
        ns = sorted({k[1] for k in table[c]})
        pick = ns if thorough else [ns[len(ns) // 2 - 1], ns[len(ns) // 2], ns[len(ns) // 2 + 1]]
        for n in pick:
            for fe, b in bins.items():
                reported = run_bin(fe, b, work, c, "-@%s.%s=%d" % (c, PARAM[c], n), "./" + c)
                runs += 1
                got = {m: (("m%02d.go" % m) in reported) for m in ms}
                want = {m: table[c][(m, n)] for m in ms}
                if got != want:
                    ctx.fail("ParamPath %s %s" % (fe_kind(fe), c), "%s with -@%s.%s=%d reports measures %s, the integrator path (Override) reports %s"
                             % (fe, c, PARAM[c], n, [m for m in ms if got[m]], [m for m in ms if want[m]]), {"frontend": fe, "checker": c, "n": n})
                # the value must be used however the checker was selected: by one of its tags, or by enable-all
                if n == pick[len(pick) // 2]:
                    for sel in ("-enable=#" + TAGOF[c], "-enableAll"):
                        rep2 = run_bin(fe, b, work, c, "-@%s.%s=%d" % (c, PARAM[c], n), "./" + c, select=sel)
                        runs += 1
                        got2 = {m: (("m%02d.go" % m) in rep2) for m in ms}
                        if got2 != want:
                            ctx.fail("ParamPath %s %s selected-by-%s" % (fe_kind(fe), c, "tag" if "#" in sel else "all"),
                                     "%s %s -@%s.%s=%d reports measures %s, expected %s" % (fe, sel, c, PARAM[c], n, [m for m in ms if got2[m]], [m for m in ms if want[m]]),
                                     {"frontend": fe, "checker": c, "n": n, "select": sel})
    for c, p in BOOLS:
        for fe, b in bins.items():
            res = {}
            for v in ("true", "false"):
                res[v] = run_bin(fe, b, work, c, "-@%s.%s=%s" % (c, p, v), "./pb", lines=True)
                runs += 1
            want = {v: sorted(bobs[(c, v)]["lines"] or []) for v in ("true", "false")}
            if {v: sorted(res[v]) for v in res} != want:
                ctx.fail("ParamPath %s %s" % (fe_kind(fe), c), "%s with -@%s.%s: lines %s, the integrator path reports %s" % (fe, c, p, res, want), {"frontend": fe, "checker": c})

    st, tr = vlib.tlc_states_total(ctx)
    reconf = reconfigure(ctx, design)
    cov = {
        "reconfiguration": reconf,
        "states": st, "transitions": tr, "traces_validated_against_impl": evaluated + runs,
        "override_checks": evaluated, "binary_runs": runs, "sizes_compared": sizes, "design": design, "exhaustive": False,
        "samples": [{"checker": "hugeParam", "m": 3, "n": 3, "reported": table["hugeParam"][(3, 3)]}, {"checker": "tooManyResultsChecker", "m": 3, "n": 3, "reported": table["tooManyResultsChecker"][(3, 3)]}],
        "uncovered": ["ruleguard.* (C18)"],
    }
    return ctx.finish("model_checking", cov, ["ifElseChain / commentedOutCode: the wording does not fix the boundary, only monotone single-step behaviour is required",
                                              "unnamedResult.checkExported: only 'takes effect' is required (observation: false checks all functions, true only exported ones)"])


RCFG = """SPECIFICATION Spec
CONSTANTS
  Runs = 3
  AssignEveryRun = %s
INVARIANTS UsedIsConfiguredNow
CHECK_DEADLOCK FALSE
"""


def reconfigure(ctx, design):
    """ParamsReconf.tla: a program embedding the analysis front-end re-configures it between runs of one process; every run must
    use the values configured for it. Binding: `vh analyze -seq` sets the flags before every run (analyzer.DisableCache on, or the
    cached configuration dropped between runs); the diagnostics of run k must equal those of a process that only ever saw the
    effective values of run k."""
    from props import analyzer_common as ac
    from props import ws as wsmod
    design["reconf_states"] = ctx.tlc("ParamsReconf", cfg_text=RCFG % "TRUE", workers=2, timeout=300, deadlock=True, expect="ok").distinct
    design["whatif_assign_once"] = ctx.tlc("ParamsReconf", cfg_text=RCFG % "FALSE", workers=2, timeout=300, deadlock=True, expect="violation").violated
    w = wsmod.make(ctx, "ws_c14seq", 2, pick=["hugeParam", "tooManyResultsChecker"])
    base = "enable=hugeParam,tooManyResultsChecker;disable="
    vals = {"default": "", "v1": ";@hugeParam.sizeThreshold=8;@tooManyResultsChecker.maxResults=1", "v2": ";@hugeParam.sizeThreshold=100000;@tooManyResultsChecker.maxResults=50"}

    def diags(res, k):
        run = res["runs"][k]
        if run.get("panic") or run.get("errors"):
            raise vlib.Infra("analyzer run failed: %s" % (run.get("panic") or run.get("errors")))
        return sorted((d["pos"], d["msg"]) for d in run.get("diags") or [])
    ref = {}
    for name, fl in vals.items():
        rr, res = ac.analyze(ctx, w["dir"], flags=base + fl, tests=False)
        if res is None:
            raise vlib.Infra("reference analyzer run failed: " + rr.stderr[-800:])
        ref[name] = diags(res, 0)
    if len({json.dumps(v) for v in ref.values()}) < 3:
        raise vlib.Infra("the three parameter settings do not give three different sets of diagnostics: %s" % {k: len(v) for k, v in ref.items()})
    seqs = [("v1", "v2", "v1"), ("v2", "v1", "notGiven"), ("notGiven", "v1", "v2"), ("v2", "notGiven", "v1")]
    n = 0
    for mode in ("disable-cache", "fresh-config"):
        for seq in seqs:
            outp = ctx.path("an", "seq_%d.json" % n)
            args = ["analyze", "-dir", w["dir"], "-out", outp, "-tests=false", "-seq", "|".join(base + vals.get(g, "") for g in seq)]
            if mode == "disable-cache":
                args.append("-disable-cache")
            r = ctx.run_vh(args, check=False, timeout=900)
            if not os.path.exists(outp):
                raise vlib.Infra("vh analyze -seq failed: " + r.stderr[-800:])
            res = json.load(open(outp))
            eff = "default"
            for k, g in enumerate(seq):
                eff = eff if g == "notGiven" else g
                n += 1
                got = diags(res, k)
                if got != ref[eff]:
                    ctx.fail("ReconfigurationIgnored %s" % mode, "analysis front-end, %s, run %d of the sequence %s in one process: %d diagnostics, a process configured with %s from the start reports %d (e.g. %s)"
                             % (mode, k + 1, list(seq), len(got), eff, len(ref[eff]), sorted(set(got) ^ set(ref[eff]))[:2]), {"sequence": list(seq), "run": k + 1, "mode": mode})
    return {"runs_compared": n, "reference_diagnostics": {k: len(v) for k, v in ref.items()}}


def fe_kind(fe):
    return "analysis" if "analysis" in fe else "cli"


def run_bin(fe, binp, work, checker, flag, pkg, lines=False, select=None):
    sel = select or ("-enable=" + checker)
    if "analysis" in fe:
        args = [binp, sel.replace("-enableAll", "-enable-all")] + ([] if "All" in sel else ["-disable="]) + [flag, pkg]
    else:
        args = [binp, "check", sel, flag, pkg]
    r = subprocess.run(args, cwd=work, capture_output=True, text=True, env=vlib.goenv(), timeout=600)
    if "panic:" in r.stderr:
        raise vlib.Infra("binary crashed: %s %s" % (args, r.stderr[-500:]))
    out = set() if not lines else []
    for l in (r.stderr + r.stdout).splitlines():
        m = LINE.match(l.strip())
        if m and m.group(4) == checker:
            if lines:
                out.append(int(m.group(2)))
            else:
                out.add(os.path.basename(m.group(1)))
    return out
