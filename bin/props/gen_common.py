"""Generated program corpora shared by C01 / C07 / C12 / C20 (programs enumerated by Scopes.tla, rendered by the harness)."""


def generate(ctx, purpose):
    """Returns a directory with generated packages, or None while the generator is not available."""
    return None


def stats(ctx):
    return getattr(ctx, "gen_stats", None)
